#!/venv/bin/python
"""Bookkeeping for seeded property-breaking changes (produced by independent sub-agents, kept under /verif/seeded/<name>/).

  tools_seeded.py import  <dir-with-patch.diff,demo.py,meta.json> <name>
  tools_seeded.py confirm <name>          demo exits 1 with the patch and 0 without it (scratch worktree under /dev/shm)
  tools_seeded.py tests   <name>          the pinned baseline suite: every test of BASELINE.stable_pass still passes with the patch
  tools_seeded.py check   <name> [pid..]  run ./check <pid> (quick tier) against a patched scratch worktree (VERIF_REPO), record who detects it
  tools_seeded.py table                   markdown table of all seeded changes for DESIGN.md

Nothing here ever touches /repo's working tree or history: patches are applied to a detached scratch worktree that is removed afterwards.
The registered checks themselves always run against /repo; VERIF_REPO is only used by this campaign tool.
"""
import json
import os
import re
import shutil
import subprocess
import sys
import xml.etree.ElementTree as ET

VERIF = os.path.dirname(os.path.abspath(__file__))
SEEDED = os.path.join(VERIF, "seeded")
PY = "/venv/bin/python"


def sh(cmd, **kw):
    return subprocess.run(cmd, shell=isinstance(cmd, str), capture_output=True, text=True, **kw)


class Worktree:
    def __init__(self, name, patch=None):
        self.path = f"/dev/shm/sw_{name}_{os.getpid()}"
        self.patch = patch

    def __enter__(self):
        sh(["git", "-C", "/repo", "worktree", "prune"])
        r = sh(["git", "-C", "/repo", "worktree", "add", "-q", "--detach", self.path, "HEAD"])
        if r.returncode:
            raise SystemExit("worktree add failed: " + r.stderr)
        if self.patch:
            r = sh(["git", "-C", self.path, "apply", self.patch])
            if r.returncode:
                self.__exit__()
                raise SystemExit("patch does not apply to /repo HEAD: " + r.stderr)
        return self.path

    def __exit__(self, *a):
        sh(["git", "-C", "/repo", "worktree", "remove", "--force", self.path])
        shutil.rmtree(self.path, ignore_errors=True)
        sh(["git", "-C", "/repo", "worktree", "prune"])


def meta_path(name):
    return os.path.join(SEEDED, name, "meta.json")


def load_meta(name):
    return json.load(open(meta_path(name)))


def save_meta(name, m):
    json.dump(m, open(meta_path(name), "w"), indent=1, sort_keys=True)
    open(meta_path(name), "a").write("\n")


def cmd_import(src, name):
    dst = os.path.join(SEEDED, name)
    os.makedirs(dst, exist_ok=True)
    for f in ("patch.diff", "demo.py", "meta.json"):
        shutil.copy(os.path.join(src, f), os.path.join(dst, f))
    m = load_meta(name)
    m["name"] = name
    m.setdefault("confirmed", {})
    save_meta(name, m)
    print("imported", name)


def run_demo(tree, name):
    env = dict(os.environ, PYTHONPATH=f"{tree}:{VERIF}/stubs", RENO_LOG_LEVEL="50", OMP_NUM_THREADS="1", PYTHONDONTWRITEBYTECODE="1")
    r = sh([PY, "-B", os.path.join(SEEDED, name, "demo.py")], cwd=tree, env=env, timeout=1200)
    return r.returncode, (r.stdout + r.stderr)[-600:]


def cmd_confirm(name):
    m = load_meta(name)
    patch = os.path.join(SEEDED, name, "patch.diff")
    with Worktree(name) as t:
        rc0, out0 = run_demo(t, name)
    with Worktree(name, patch) as t:
        rc1, out1 = run_demo(t, name)
    m["confirmed"]["demo_clean_exit"] = rc0
    m["confirmed"]["demo_patched_exit"] = rc1
    m["confirmed"]["demo_patched_tail"] = out1[-300:]
    save_meta(name, m)
    print(name, "demo clean exit", rc0, "patched exit", rc1)
    if rc0 != 0:
        print(out0)
    return rc0 == 0 and rc1 == 1


def cmd_tests(name, workers="8"):
    base = json.load(open("/root/.vp/BASELINE.json"))
    stable = set(base["stable_pass"])
    m = load_meta(name)
    patch = os.path.join(SEEDED, name, "patch.diff")
    with Worktree(name, patch) as t:
        xml = f"/dev/shm/junit_{name}_{os.getpid()}.xml"
        env = dict(os.environ, OMP_NUM_THREADS="1", OPENBLAS_NUM_THREADS="1", PYTHONDONTWRITEBYTECODE="1")
        env.pop("RENORMALIZER_VERIF", None)
        r = sh([PY, "-m", "pytest", "-q", "-p", "no:cacheprovider", "--timeout=900", "--continue-on-collection-errors", "-n", workers, f"--junitxml={xml}"],
               cwd=t, env=env, timeout=7200)
        passed = set()
        bad = []
        for tc in ET.parse(xml).getroot().iter("testcase"):
            tid = f"{tc.get('classname')}::{tc.get('name')}"
            if any(ch.tag in ("failure", "error") for ch in tc):
                bad.append(tid)
            elif not any(ch.tag == "skipped" for ch in tc):
                passed.add(tid)
        os.remove(xml)
    broken = sorted(stable - passed)
    m["confirmed"]["baseline_stable_pass_total"] = len(stable)
    m["confirmed"]["baseline_broken_by_patch"] = broken
    save_meta(name, m)
    print(name, "stable_pass", len(stable), "still passing", len(stable & passed), "broken", broken[:5])
    return not broken


def cmd_tests_clean(workers="8"):
    """The pinned baseline suite on /repo HEAD itself (all fixes, no seeded change), guard variable unset."""
    base = json.load(open("/root/.vp/BASELINE.json"))
    stable = set(base["stable_pass"])
    with Worktree("cleanhead") as t:
        xml = f"/dev/shm/junit_clean_{os.getpid()}.xml"
        env = dict(os.environ, OMP_NUM_THREADS="1", OPENBLAS_NUM_THREADS="1", PYTHONDONTWRITEBYTECODE="1")
        env.pop("RENORMALIZER_VERIF", None)
        sh([PY, "-m", "pytest", "-q", "-p", "no:cacheprovider", "--timeout=900", "--continue-on-collection-errors", "-n", workers, f"--junitxml={xml}"], cwd=t, env=env, timeout=10800)
        passed = set()
        for tc in ET.parse(xml).getroot().iter("testcase"):
            tid = f"{tc.get('classname')}::{tc.get('name')}"
            if not any(ch.tag in ("failure", "error", "skipped") for ch in tc):
                passed.add(tid)
        os.remove(xml)
    head = sh(["git", "-C", "/repo", "rev-parse", "--short", "HEAD"]).stdout.strip()
    broken = sorted(stable - passed)
    print(f"/repo HEAD {head}: stable_pass {len(stable)}, passing {len(stable & passed)}, broken {broken}")
    json.dump({"head": head, "stable_pass": len(stable), "passing": len(stable & passed), "broken": broken}, open(os.path.join(VERIF, "seeded", "baseline_on_head.json"), "w"), indent=1)
    return not broken


def cmd_check(name, pids):
    m = load_meta(name)
    patch = os.path.join(SEEDED, name, "patch.diff")
    pids = pids or [m["property"]]
    res = m.setdefault("detected_by", {})
    with Worktree(name, patch) as t:
        for pid in pids:
            env = dict(os.environ, VERIF_REPO=t, VERIF_TIER="quick")
            r = sh([os.path.join(VERIF, "check"), pid, "--no-evidence"], env=env, timeout=3600)
            out = r.stdout + r.stderr
            viol = [l for l in out.splitlines() if l.startswith("VIOLATION")]
            detail = [l for l in out.splitlines() if l.startswith("  inv=") or "inv=" in l][:2]
            res[pid] = {"exit": r.returncode, "violation_lines": len(viol), "first": (detail[0][:300] if detail else (viol[0][:200] if viol else ""))}
            print(name, pid, "exit", r.returncode, (detail[0][:200] if detail else ""))
    save_meta(name, m)


def cmd_table():
    rows = []
    for name in sorted(os.listdir(SEEDED)):
        if not os.path.exists(meta_path(name)):
            continue
        m = load_meta(name)
        det = m.get("detected_by", {})
        caught = [p for p, r in det.items() if r["exit"] == 1 and r["violation_lines"]]
        missed = [p for p, r in det.items() if r["exit"] == 0]
        tests = m.get("confirmed", {}).get("baseline_broken_by_patch")
        tests_s = "not run" if tests is None else ("216/216" if not tests else f"BROKE {len(tests)}")
        rows.append(f"| {name} | {m.get('property')} | {m.get('summary', '')[:170].replace('|', '/')} | {', '.join(caught) or '-'} | {', '.join(missed) or '-'} | {tests_s} | {m.get('history', 'caught on first run')} |")
    print("| seeded change | target | what it does | caught by (quick tier) | ran clean | baseline tests with patch | history |\n|---|---|---|---|---|---|---|")
    print("\n".join(rows))


if __name__ == "__main__":
    c = sys.argv[1]
    if c == "import":
        cmd_import(sys.argv[2], sys.argv[3])
    elif c == "confirm":
        sys.exit(0 if cmd_confirm(sys.argv[2]) else 1)
    elif c == "tests":
        sys.exit(0 if cmd_tests(sys.argv[2], *(sys.argv[3:4])) else 1)
    elif c == "check":
        cmd_check(sys.argv[2], sys.argv[3:])
    elif c == "table":
        cmd_table()
    elif c == "tests-clean":
        sys.exit(0 if cmd_tests_clean(*(sys.argv[2:3])) else 1)
