#!/venv/bin/python
"""Regenerate the generated tables of DESIGN.md (fix list from known_findings.txt, seeded-change table from seeded/*/meta.json)."""
import json, os, re, subprocess
V = os.path.dirname(os.path.abspath(__file__))
s = open(os.path.join(V, "DESIGN.md")).read()
rows = []
for line in open(os.path.join(V, "known_findings.txt")):
    m = re.match(r"fixed:\s+property=(\S+)\s+(\S+)\s+\[fix: ([^\]]+)\]\s+(.*)", line.strip())
    if m:
        rows.append(f"| {m.group(1)} | {m.group(3)} | {m.group(4)} |")
s = re.sub(r"<!-- FIXTABLE-BEGIN -->.*?<!-- FIXTABLE-END -->", "<!-- FIXTABLE-BEGIN -->\n" + "\n".join(rows) + "\n<!-- FIXTABLE-END -->", s, flags=re.S)
out = subprocess.run(["/venv/bin/python", os.path.join(V, "tools_seeded.py"), "table"], capture_output=True, text=True).stdout.strip()
s = re.sub(r"<!-- SEEDED-BEGIN -->.*?<!-- SEEDED-END -->", "<!-- SEEDED-BEGIN -->\n" + out + "\n<!-- SEEDED-END -->", s, flags=re.S)
open(os.path.join(V, "DESIGN.md"), "w").write(s)
print("fix rows", len(rows))
