"""Refresh the commit hashes in known_findings.txt `fixed:` lines from /repo's history.
Each fixed line carries the commit subject in square brackets:  fixed: property=C03 <hash> [<subject>] <what failed>"""
import re, subprocess
log = subprocess.run(["git", "-C", "/repo", "log", "--format=%h\t%s"], capture_output=True, text=True).stdout.strip().splitlines()
by_subject = {l.split("\t", 1)[1]: l.split("\t", 1)[0] for l in log}
out = []
for line in open("/verif/known_findings.txt"):
    m = re.match(r"(fixed:\s+property=\S+\s+)(\S+)(\s+\[)([^\]]+)(\].*)", line.rstrip("\n"))
    if m:
        subj = m.group(4)
        if subj not in by_subject:
            raise SystemExit(f"no commit with subject {subj!r}")
        line = m.group(1) + by_subject[subj] + m.group(3) + subj + m.group(5) + "\n"
    out.append(line)
open("/verif/known_findings.txt", "w").writelines(out)
print("ok", len([l for l in out if l.startswith("fixed:")]), "fixed lines")
