"""Regenerates MANIFEST.json from simlab.registry (run:  /venv/bin/python tools_manifest.py)."""
import json, sys
sys.path.insert(0, "/verif")
from simlab.registry import REGISTRY
from simlab.manifest_text import LEVEL_TEXT, LEVEL_NOTE, TECHNIQUE, NOT_APPLICABLE

checks = []
for pid in sorted(REGISTRY):
    reg = REGISTRY[pid]
    checks.append({
        "property_id": pid,
        "quick_cmd": f"./check {pid} --tier quick",
        "thorough_cmd": f"./check {pid} --tier thorough",
        "evidence_file": f"/verif/evidence/{pid}.json",
        "replay_cmd_template": f"./check {pid} --replay {{path}}",
        "engine": "simlab",
        "level_claimed": {"category": reg["level"], "text": LEVEL_TEXT[pid], "design_ref": "DESIGN.md section " + reg["design_ref"]},
        "level_note": LEVEL_NOTE[pid],
        "technique": TECHNIQUE[pid],
    })
claimed = set(REGISTRY)
manifest = {
    "version": 1,
    "setup_cmd": "./setup.sh",
    "hooks": {
        "guard": "RENORMALIZER_VERIF",
        "enable": "no source hooks exist: all seams are monkey-patches installed by /verif/simlab at import time; ./check exports RENORMALIZER_VERIF=1 for uniformity",
        "baseline_off_cmd": "cd /repo && env -u RENORMALIZER_VERIF /venv/bin/python -m pytest -ra -q -p no:cacheprovider --timeout=900 --continue-on-collection-errors",
        "source_commits": [],
        "add_only": True,
    },
    "engines": [{"name": "simlab", "path": "/verif/simlab", "serves_properties": sorted(claimed),
                 "kind_free_text": "deterministic simulation of user sessions (population of live objects + dense shadow model) with seeded schedules and fault injection at file-system / LAPACK / memory / RNG / GC / hash seams; seeded search, ddmin shrinking, replay files"}],
    "checks": checks,
    "not_applicable": [{"property_id": p, "reason": r} for p, r in NOT_APPLICABLE.items() if p not in claimed],
    "notes": "See DESIGN.md.  exit 0 clean / 1 violation / 2 harness error.  known_findings.txt lists fixed defects and recorded findings.",
}
json.dump(manifest, open("/verif/MANIFEST.json", "w"), indent=1)
print("checks:", [c["property_id"] for c in checks], "n/a:", [n["property_id"] for n in manifest["not_applicable"]])
