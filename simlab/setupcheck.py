"""setup_cmd: verify that the real library imports from /repo's working tree and that every seam's patch target exists."""
import sys
from simlab import env
env.setup_worker()


def main():
    import renormalizer
    assert renormalizer.__file__.startswith(env.REPO), renormalizer.__file__
    import renormalizer.tn  # needs the print_tree stub
    import importlib
    targets = [
        ("renormalizer.utils.tdmps", ["datetime", "np", "os"]),
        ("renormalizer.mps.svd_qn", ["scipy"]),
        ("renormalizer.lib.krylov.krylov", ["eigh_tridiagonal"]),
        ("renormalizer.mps.oe_contract_wrap", ["oe"]),
        ("renormalizer.mps.mp", ["calc_vn_entropy", "os", "shutil"]),
        ("renormalizer.mps.gs", ["davidson"]),
        ("renormalizer.mps.matrix", ["Matrix"]),
        ("renormalizer.mps.mps", ["solve_ivp"]),
        ("renormalizer.mps.gs", ["np", "eigh_iterative"]),
        ("renormalizer.tn.time_evolution", ["solve_ivp"]),
        ("renormalizer.tn.gs", ["optimize_ttns"]),
        ("renormalizer.tn.utils_eph", ["max_entangled_ex"]),
        ("renormalizer.tn.tree", ["from_mps"]),
    ]
    bad = []
    for mod, names in targets:
        m = importlib.import_module(mod)
        for n in names:
            if not hasattr(m, n):
                bad.append(f"{mod}.{n}")
    if bad:
        print("SETUP-ERROR: seam targets missing:", bad)
        return 2
    print("setup ok: renormalizer from", renormalizer.__file__)
    return 0


sys.exit(main())
