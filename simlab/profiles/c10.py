from simlab.profiles.evoprof import make_module_api, W_C10
ID = "C10"
generate_and_run, replay = make_module_api("C10", W_C10)
