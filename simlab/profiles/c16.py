"""C16 — basis sets and model builders realise their documented physics.

Simulation part: basis instances are created once and SHARED by the session; the schedule interleaves op_mat requests
for supported symbols, requests for unsupported symbols (which legally raise ValueError) and use of the same
instances inside Model/Mpo construction.  Oracle (i): history independence - every matrix equals what a fresh,
identically constructed instance returns.  Oracle (ii): defining relations computed without op_mat of the compound
symbol.  Oracle (iii): Holstein / spin-boson / translation-invariant builders against Hamiltonians assembled by the
harness (sampled inputs, stated as such).
"""
import numpy as np
import scipy.integrate
import scipy.linalg

from simlab import session
from simlab.chain import V
from simlab.core import HarnessError
from simlab.ref import dense

from renormalizer.model import Model, Op, HolsteinModel, SpinBosonModel, TI1DModel, Mol, Phonon
from renormalizer.model import basis as ba
from renormalizer.mps import Mpo
from renormalizer.utils import Quantity

ID = "C16"
TOL = 1e-10


def build(spec, dof="q"):
    t = spec["type"]
    if t == "sho":
        return ba.BasisSHO(dof, spec["omega"], spec["nbas"], x0=spec.get("x0", 0.0), dvr=spec.get("dvr", False),
                           general_xp_power=spec.get("general", False))
    if t == "sine":
        return ba.BasisSineDVR(dof, spec["nbas"], spec["xi"], spec["xf"], endpoint=spec.get("endpoint", False), dvr=spec.get("dvr", False))
    if t == "spin":
        return ba.BasisHalfSpin(dof)
    if t == "elec":
        return ba.BasisSimpleElectron(dof)
    if t == "multi":
        return ba.BasisMultiElectron([f"{dof}{i}" for i in range(spec["k"])], [0] * spec["k"])
    if t == "multivac":
        return ba.BasisMultiElectronVac([f"{dof}{i}" for i in range(spec["k"])])
    if t == "hops":
        return ba.BasisHopsBoson(dof, spec["nbas"])
    raise HarnessError(t)


SUPPORTED = {
    "sho": ["b", r"b^\dagger", "b b", r"b^\dagger b^\dagger", r"b^\dagger b", r"b b^\dagger", r"b^\dagger+b", r"b^\dagger + b", r"b^\dagger-b",
            "x", "x^2", "x x", "x^3", "x^4", "x x x", "p", "p^2", "p p", "p^3", "p^4", "x p", "p x", "x dx", "dx x", "dx", "dx^2", "dx dx",
            "partialx", "I", "n"],
    "sine": ["I", "x", "x^1", "x^2", "x^3", "x x", "dx", "dx^2", "dx dx", "p", "p^2", "x dx", "x^2 p^2", "x^2 dx^2", "x^2 dx", "x p^2", "x dx^2",
             "x^3 p^2", "x^3 dx^2", "partialx"],
    "spin": ["I", "X", "Y", "Z", "sigma_x", "sigma_y", "sigma_z", "sigma_+", "sigma_-", "iY", "isigma_y", "+", "-", "x", "y", "z",
             "X Y", "Z X Y", "sigma_+ sigma_-", "Y Y", "sigma_- sigma_+ Z"],
    "elec": ["I", "a", r"a^\dagger", r"a^\dagger a"],
    "hops": ["I", r"b^\dagger b", r"\tilde{b}^\dagger", r"\tilde{b}"],
}
UNSUPPORTED = {
    "sho": ["q", "x^2 p", "b^2", "a", "sigma_x", "exp(x)", "x  x", "dx p"],
    "sine": ["b", "x^4 dx", "sin(x) dx", "a", "dx x^2", "p x"],
    "spin": ["a", "W", "sigma_w", "b"],
    "elec": ["b", "a a", r"a a^\dagger", "X"],
    "hops": ["b", "x", r"b^\dagger"],
}


class Entry:
    __slots__ = ("kind", "obj", "shadow", "tainted", "spec")

    def __init__(self, kind, obj, spec):
        self.kind, self.obj, self.spec = kind, obj, spec
        self.shadow = np.zeros(1)
        self.tainted = False


def mats_equal(a, b, tol=1e-13):
    a, b = np.asarray(a), np.asarray(b)
    if a.shape != b.shape:
        return False, float("inf")
    sc = max(float(np.abs(a).max()), float(np.abs(b).max()), 1e-300)
    d = float(np.abs(a - b).max())
    return d <= tol * sc, d / sc


class World:
    def __init__(self, header, stats, scratch=None):
        self.header, self.stats = header, stats
        self.h = {}
        for i, spec in enumerate(header["bases"]):
            self.h[f"b{i}"] = Entry(spec["type"], build(spec, dof=f"q{i}"), spec)
        self.step_no = -1
        self.created, self.changed = set(), set()

    def fresh(self, e):
        return build(e.spec, dof=e.obj.dof if not e.obj.multi_dof else "z")

    def execute(self, s):
        self.step_no += 1
        self.cur_op = s["op"]
        st = OPS[s["op"]](self, s)
        self.stats.ops[s["op"] if st != "skipped" else "skipped"] += 1
        return st


OPS = {}


def op(name):
    def deco(f):
        OPS[name] = f
        return f
    return deco


def _opmat(b, sym):
    with np.errstate(all="ignore"):
        if b.multi_dof:
            return b.op_mat(sym)
        return b.op_mat(sym)


@op("op_mat")
def op_op_mat(w, s):
    e = w.h[s["b"]]
    sym = s["sym"]
    try:
        got = _opmat(e.obj, sym if not s.get("as_op") else Op(sym, e.obj.dof, s.get("factor", 1.0)))
    except Exception as ex:
        raise V({"C16"}, "C16.supported_symbol_raised", f"{e.obj}.op_mat({sym!r}) raised {type(ex).__name__}: {ex} at step {w.step_no}",
                sig=f"C16.supported_symbol_raised:{e.kind}:{sym}")
    ref = _opmat(w.fresh(e), sym) * (s.get("factor", 1.0) if s.get("as_op") else 1.0)
    ok, d = mats_equal(got, ref)
    if not ok:
        raise V({"C16"}, "C16.history_dependence",
                f"{e.obj}.op_mat({sym!r}) differs from a fresh identically constructed instance by {d:.3e} (relative) after the session history",
                sig=f"C16.history_dependence:{e.kind}")
    w.stats.probes["history_independence_checks"] += 1
    return "done"


@op("unsupported")
def op_unsupported(w, s):
    e = w.h[s["b"]]
    try:
        _opmat(e.obj, s["sym"])
    except (ValueError, AssertionError, KeyError, TypeError, SyntaxError, NameError, AttributeError):
        w.stats.probes["unsupported_symbol_raised"] += 1
        return "done"
    except Exception as ex:
        w.stats.probes["unsupported_symbol_other:" + type(ex).__name__] += 1
        return "done"
    w.stats.probes["unsupported_symbol_accepted"] += 1
    return "done"


@op("use_in_model")
def op_use_in_model(w, s):
    """Use the shared instances inside a Model + Mpo (as every real session does) - must not disturb them."""
    hs = [h for h in s["bases"] if h in w.h and w.h[h].kind in ("sho", "spin", "elec", "sine")]
    if not hs:
        return "skipped"
    basis = [w.h[h].obj for h in hs]
    terms = []
    for h, sym in zip(hs, s["syms"]):
        terms.append(Op(sym, w.h[h].obj.dof, 0.7))
    try:
        model = Model(basis, terms)
        mpo = Mpo(model)
        got = mpo.todense()
    except Exception as ex:
        raise V({"C16", "C01"}, "C16.model_use_raised", f"Model/Mpo over shared bases raised {type(ex).__name__}: {ex}", sig="C16.model_use_raised")
    fresh = [w.fresh(w.h[h]) for h in hs]
    ref = dense.dense_op(Model(fresh, [Op(sym, b.dof, 0.7) for b, sym in zip(fresh, s["syms"])]), [Op(sym, b.dof, 0.7) for b, sym in zip(fresh, s["syms"])])
    ok, d = mats_equal(got, ref, 1e-11)
    if not ok:
        raise V({"C16", "C01"}, "C16.history_dependence", f"Mpo built over shared basis instances differs from the one over fresh instances by {d:.3e}",
                sig="C16.history_dependence:model")
    return "done"


def block(m, k):
    return np.asarray(m)[:k, :k]


def rel(w, name, a, b, tol=TOL, what=""):
    a, b = np.asarray(a), np.asarray(b)
    sc = max(float(np.abs(a).max()) if a.size else 0.0, float(np.abs(b).max()) if b.size else 0.0, 1e-300)
    d = float(np.abs(a - b).max()) if a.size else 0.0
    w.stats.ratio("C16.relation", d, tol * sc)
    w.stats.probes["relations_checked"] += 1
    if d > tol * sc:
        raise V({"C16"}, "C16.relation", f"{what}: relation {name} violated, max dev {d:.3e} (scale {sc:.3e})", sig=f"C16.relation:{name}")


@op("relation")
def op_relation(w, s):
    e = w.h[s["b"]]
    b = e.obj
    n = b.nbas
    which = s["which"]
    what = str(b)
    if e.kind == "sho":
        plain = not e.spec.get("dvr", False)
        x, p = _opmat(b, "x"), _opmat(b, "p")
        I = np.eye(n)
        if which == "products" and plain and n >= 2:
            k = n - 1
            dx = _opmat(b, "dx")
            rel(w, "sho:'x p'=x@p", block(_opmat(b, "x p"), k), block(x @ p, k), what=what)
            rel(w, "sho:'p x'=p@x", block(_opmat(b, "p x"), k), block(p @ x, k), what=what)
            if abs(e.spec.get("x0", 0.0)) == 0:
                rel(w, "sho:'x dx'=x@dx", block(_opmat(b, "x dx"), k), block(x @ dx, k), what=what)
                rel(w, "sho:'dx x'=dx@x", block(_opmat(b, "dx x"), k), block(dx @ x, k), what=what)
            rel(w, "sho:p=-i dx", p, -1j * dx, what=what)
            rel(w, "sho:dx^2=-p^2", _opmat(b, "dx^2"), -_opmat(b, "p^2"), what=what)
        elif which == "commutator" and plain and n >= 2:
            k = n - 1
            rel(w, "sho:[x,p]=i", block(x @ p - p @ x, k), 1j * np.eye(k), what=what)
            bb, bd = _opmat(b, "b"), _opmat(b, r"b^\dagger")
            rel(w, "sho:[b,b+]=1", block(bb @ bd - bd @ bb, k), np.eye(k), what=what)
            rel(w, "sho:b+b=b+@b", _opmat(b, r"b^\dagger b"), bd @ bb, what=what)
            rel(w, "sho:n", _opmat(b, "n"), np.diag(np.arange(n)), what=what)
            rel(w, "sho:hermitian x", x, x.conj().T, what=what)
            rel(w, "sho:hermitian p", p, p.conj().T, what=what)
        elif which == "powers" and plain:
            for k_ in (2, 3, 4):
                blk = n - k_ + 1
                if blk < 1:
                    continue
                rel(w, f"sho:x^{k_}", block(_opmat(b, f"x^{k_}"), blk), block(np.linalg.matrix_power(x, k_), blk), what=what)
                rel(w, f"sho:p^{k_}", block(_opmat(b, f"p^{k_}"), blk), block(np.linalg.matrix_power(p, k_), blk), what=what)
            rel(w, "sho:'x x'=x^2", _opmat(b, "x x"), _opmat(b, "x^2"), what=what)
            # exact oscillator: p^2/2 + w^2 (x-x0)^2/2 = w (n + 1/2)
            om = e.spec["omega"]
            x0 = e.spec.get("x0", 0.0)
            y2 = _opmat(b, "x^2") - 2 * x0 * x + x0 ** 2 * I
            rel(w, "sho:hamiltonian", 0.5 * _opmat(b, "p^2") + 0.5 * om ** 2 * y2, om * (np.diag(np.arange(n)) + 0.5 * I), what=what)
        elif which == "variants":
            # shifted origin and general-power variants agree with the plain basis
            sp0 = dict(e.spec, x0=0.0, dvr=False, general=False)
            b0 = build(sp0, "z")
            x0 = e.spec.get("x0", 0.0)
            if plain:
                rel(w, "sho:x(x0)=x+x0", x, _opmat(b0, "x") + x0 * I, what=what)
                rel(w, "sho:p(x0)=p", p, _opmat(b0, "p"), what=what)
                if n >= 2:
                    rel(w, "sho:x^2(x0)", block(_opmat(b, "x^2"), n - 1), block((_opmat(b0, "x") + x0 * I) @ (_opmat(b0, "x") + x0 * I), n - 1), what=what)
                bg = build(dict(e.spec, general=True), "z")
                for sym in ("x", "x^2", "p", "p^2"):
                    rel(w, f"sho:general_power {sym}", _opmat(bg, sym), _opmat(b, sym), what=what)
            else:
                v = b.dvr_v
                rel(w, "shodvr:V orthogonal", v.T @ v, I, what=what)
                bx = build(dict(e.spec, dvr=False), "z")
                rel(w, "shodvr:x=V^T x V diag", x, v.T @ _opmat(bx, "x") @ v, what=what)
                rel(w, "shodvr:x diagonal", x, np.diag(np.diag(x)), what=what)
                rel(w, "shodvr:p=V^T p V", p, v.T @ _opmat(bx, "p") @ v, what=what)
                rel(w, "shodvr:p^2=V^T p^2 V", _opmat(b, "p^2"), v.T @ _opmat(bx, "p^2") @ v, what=what)
                rel(w, "shodvr:x^2=x@x", _opmat(b, "x^2"), x @ x, what=what)
        else:
            return "skipped"
    elif e.kind == "sine":
        L, xi = b.L, b.xi
        dvr = e.spec.get("dvr", False)
        rot = (lambda m: b.dvr_v.T @ m @ b.dvr_v) if dvr else (lambda m: m)

        def psi(j, x):
            return np.sqrt(2 / L) * np.sin((j + 1) * np.pi * (x - xi) / L)

        def dpsi(j, x):
            return np.sqrt(2 / L) * (j + 1) * np.pi / L * np.cos((j + 1) * np.pi * (x - xi) / L)

        def d2psi(j, x):
            return -((j + 1) * np.pi / L) ** 2 * psi(j, x)

        def quad(f):
            m = np.zeros((n, n))
            for i in range(n):
                for j in range(n):
                    m[i, j] = scipy.integrate.quad(lambda x: f(i, j, x), xi, xi + L, epsabs=1e-13, epsrel=1e-12, limit=200)[0]
            return m
        table = {
            "x": lambda i, j, x: psi(i, x) * x * psi(j, x),
            "x^2": lambda i, j, x: psi(i, x) * x ** 2 * psi(j, x),
            "x^3": lambda i, j, x: psi(i, x) * x ** 3 * psi(j, x),
            "dx": lambda i, j, x: psi(i, x) * dpsi(j, x),
            "dx^2": lambda i, j, x: psi(i, x) * d2psi(j, x),
            "x dx": lambda i, j, x: psi(i, x) * x * dpsi(j, x),
            "x^2 dx": lambda i, j, x: psi(i, x) * x ** 2 * dpsi(j, x),
            "x dx^2": lambda i, j, x: psi(i, x) * x * d2psi(j, x),
            "x^2 dx^2": lambda i, j, x: psi(i, x) * x ** 2 * d2psi(j, x),
            "x^3 dx^2": lambda i, j, x: psi(i, x) * x ** 3 * d2psi(j, x),
        }
        sym = s.get("sym", "x")
        if which == "integral" and sym in table and n <= 6:
            ref = rot(quad(table[sym]))
            rel(w, f"sine:{sym}=integral", _opmat(b, sym), ref, tol=1e-8, what=what)
        elif which == "algebra":
            rel(w, "sine:p=-i dx", _opmat(b, "p"), -1j * _opmat(b, "dx"), what=what)
            rel(w, "sine:p^2=-dx^2", _opmat(b, "p^2"), -_opmat(b, "dx^2"), what=what)
            rel(w, "sine:x^2 p^2=-x^2 dx^2", _opmat(b, "x^2 p^2"), -_opmat(b, "x^2 dx^2"), what=what)
            rel(w, "sine:x^1=x", _opmat(b, "x^1"), _opmat(b, "x"), what=what)
            rel(w, "sine:'x x'=x^2", _opmat(b, "x x"), _opmat(b, "x^2"), what=what)
            rel(w, "sine:V orthogonal", b.dvr_v.T @ b.dvr_v, np.eye(n), what=what)
        else:
            return "skipped"
    elif e.kind == "spin":
        X, Y, Z = _opmat(b, "X"), _opmat(b, "Y"), _opmat(b, "Z")
        I = np.eye(2)
        rel(w, "spin:XY=iZ", X @ Y, 1j * Z)
        rel(w, "spin:YZ=iX", Y @ Z, 1j * X)
        rel(w, "spin:ZX=iY", Z @ X, 1j * Y)
        for nm, m in (("X", X), ("Y", Y), ("Z", Z)):
            rel(w, f"spin:{nm}^2=1", m @ m, I)
        rel(w, "spin:sigma_+", _opmat(b, "sigma_+"), (X + 1j * Y) / 2)
        rel(w, "spin:sigma_-", _opmat(b, "sigma_-"), (X - 1j * Y) / 2)
        rel(w, "spin:iY", _opmat(b, "iY"), (1j * Y).real)
        rel(w, "spin:aliases", _opmat(b, "sigma_x"), X)
        rel(w, "spin:aliases", _opmat(b, "sigma_y"), Y)
        rel(w, "spin:aliases", _opmat(b, "sigma_z"), Z)
        syms = s.get("word", ["X", "Y"])
        prod = I
        for t in syms:
            prod = prod @ _opmat(b, t)
        rel(w, "spin:word=product", _opmat(b, Op(" ".join(syms), b.dof)), prod)
    elif e.kind == "elec":
        a, ad = _opmat(b, "a"), _opmat(b, r"a^\dagger")
        rel(w, "elec:a+a", _opmat(b, r"a^\dagger a"), ad @ a)
        rel(w, "elec:adjoint", ad, a.T)
        rel(w, "elec:anticommutator", a @ ad + ad @ a, np.eye(2))
        rel(w, "elec:a a=0", a @ a, np.zeros((2, 2)))
    elif e.kind in ("multi", "multivac"):
        k = e.spec["k"]
        off = 1 if e.kind == "multivac" else 0
        dofs = list(b.dof)
        i, j = s.get("i", 0) % k, s.get("j", 0) % k
        ref = np.zeros((b.nbas, b.nbas))
        ref[i + off, j + off] = 1.0
        rel(w, f"{e.kind}:a+_i a_j", b.op_mat(Op(r"a^\dagger a", [dofs[i], dofs[j]])), ref)
        rel(w, f"{e.kind}:a_j a+_i", b.op_mat(Op(r"a a^\dagger", [dofs[j], dofs[i]])), ref)
        if e.kind == "multivac":
            r1 = np.zeros((b.nbas, b.nbas))
            r1[i + 1, 0] = 1.0
            rel(w, "multivac:a+_i", b.op_mat(Op(r"a^\dagger", dofs[i])), r1)
            rel(w, "multivac:a_i", b.op_mat(Op("a", dofs[i])), r1.T)
            rel(w, "multivac:sigmaqn", np.asarray(b.sigmaqn).ravel(), np.array([0] + [1] * k))
    elif e.kind == "hops":
        bt, btd = _opmat(b, r"\tilde{b}"), _opmat(b, r"\tilde{b}^\dagger")
        num = np.diag(np.arange(n))
        rel(w, "hops:b~+ b~ = n", btd @ bt, num)
        rel(w, "hops:b+b", _opmat(b, r"b^\dagger b"), num)
    return "done"


# ---------------------------------------------------------------------------------- model builders (sampled inputs)

def ladder(n):
    b = np.diag(np.sqrt(np.arange(1, n)), k=1)
    return b, b.T


def embed(mats, dims, where):
    out = np.ones((1, 1))
    for i, d in enumerate(dims):
        out = np.kron(out, where.get(i, np.eye(d)))
    return out


@op("holstein")
def op_holstein(w, s):
    nmol = s["nmol"]
    nph = s["nph"]
    mols = []
    for m in range(nmol):
        phs = []
        for q in range(nph):
            pp = s["ph"][m % len(s["ph"])][q % len(s["ph"][0])]
            phs.append(Phonon([Quantity(pp["w0"]), Quantity(pp["w1"])], [Quantity(0), Quantity(pp["d"])], pp["n"]))
        mols.append(Mol(Quantity(s["elocalex"][m % len(s["elocalex"])]), phs, 1.0))
    J = s["J"]
    try:
        if s.get("jmatrix"):
            jm = np.array(s["jmatrix"])[:nmol, :nmol]
            model = HolsteinModel(mols, jm, scheme=s["scheme"])
        else:
            model = HolsteinModel(mols, Quantity(J), scheme=s["scheme"], periodic=s["periodic"])
            jm = np.zeros((nmol, nmol))
            for i in range(nmol - 1):
                jm[i, i + 1] = jm[i + 1, i] = J
            if s["periodic"] and nmol > 1:
                jm[0, -1] = jm[-1, 0] = J
    except AssertionError:
        return "skipped"
    got = dense.dense_op(model, model.ham_terms)
    dims = dense.pdims(model)
    # ---- independent assembly, in the model's own site order
    H = np.zeros_like(got)
    site_of = model.dof_to_siteidx
    if s["scheme"] < 4:
        nproj = {m: embed(None, dims, {site_of[m]: np.diag([0.0, 1.0])}) for m in range(nmol)}
        for i in range(nmol):
            for j in range(nmol):
                if i == j:
                    e0 = sum(0.5 * mols[i].ph_list[q].omega[1] ** 2 * mols[i].ph_list[q].dis[1] ** 2 for q in range(nph))
                    H += (mols[i].elocalex + e0) * nproj[i]
                elif jm[i, j] != 0:
                    up = np.array([[0, 0], [1.0, 0]])
                    H += jm[i, j] * embed(None, dims, {site_of[i]: up, site_of[j]: up.T})
    else:
        se = site_of[0]
        for i in range(nmol):
            for j in range(nmol):
                m = np.zeros((nmol + 1, nmol + 1))
                m[i + 1, j + 1] = 1.0
                if i == j:
                    e0 = sum(0.5 * mols[i].ph_list[q].omega[1] ** 2 * mols[i].ph_list[q].dis[1] ** 2 for q in range(nph))
                    H += (mols[i].elocalex + e0) * embed(None, dims, {se: m})
                elif jm[i, j] != 0:
                    H += jm[i, j] * embed(None, dims, {se: m})
        nproj = {}
        for i in range(nmol):
            m = np.zeros((nmol + 1, nmol + 1))
            m[i + 1, i + 1] = 1.0
            nproj[i] = embed(None, dims, {se: m})
    for i in range(nmol):
        for q in range(nph):
            ph = mols[i].ph_list[q]
            sv = site_of[(i, q)]
            n = dims[sv]
            b, bd = ladder(n)
            w0, w1, d = ph.omega[0], ph.omega[1], ph.dis[1]
            num = np.diag(np.arange(n))
            x = np.sqrt(0.5 / w0) * (b + bd)
            x2 = 0.5 / w0 * (bd @ bd + b @ b + 2 * num + np.eye(n))  # exact matrix elements of x^2 inside the truncated space
            H += w0 * embed(None, dims, {sv: num + 0.5 * np.eye(n)})
            H += (-w1 ** 2 * d) * nproj[i] @ embed(None, dims, {sv: x})
            if not np.allclose(w0, w1):
                H += 0.5 * (w1 ** 2 - w0 ** 2) * nproj[i] @ embed(None, dims, {sv: x2})
    sc = max(float(np.abs(H).max()), 1e-300)
    dev = float(np.abs(got - H).max())
    w.stats.ratio("C16.holstein", dev, 1e-10 * sc)
    if dev > 1e-10 * sc:
        raise V({"C16"}, "C16.holstein", f"HolsteinModel(scheme={s['scheme']}, periodic={s['periodic']}, nmol={nmol}, nph={nph}) terms differ from the documented Hamiltonian by {dev:.3e}",
                sig=f"C16.holstein:scheme{s['scheme']}")
    # spectra equal across schemes on the 0- and 1-exciton sectors
    other = 4 if s["scheme"] < 4 else 2
    m2 = HolsteinModel(mols, jm, scheme=other)
    got2 = dense.dense_op(m2, m2.ham_terms)
    for q in (0, 1):
        e1 = np.linalg.eigvalsh(_restrict(model, got, q))
        e2 = np.linalg.eigvalsh(_restrict(m2, got2, q))
        if e1.shape != e2.shape or float(np.abs(e1 - e2).max()) > 1e-9 * max(1.0, float(np.abs(e1).max())):
            raise V({"C16"}, "C16.holstein.schemes", f"spectra of scheme {s['scheme']} and {other} differ in the {q}-exciton sector", sig="C16.holstein.schemes")
    w.stats.probes["holstein_models"] += 1
    return "done"


def _restrict(model, H, q):
    mask = dense.sector_mask(model, [q])
    return H[np.ix_(mask, mask)]


@op("spinboson")
def op_spinboson(w, s):
    phs = [Phonon.simple_phonon(Quantity(p["w"]), Quantity(p["d"]), p["n"]) for p in s["ph"]]
    model = SpinBosonModel(Quantity(s["eps"]), Quantity(s["delta"]), phs)
    got = dense.dense_op(model, model.ham_terms)
    dims = dense.pdims(model)
    Z, X = np.diag([1.0, -1.0]), np.array([[0, 1.0], [1.0, 0]])
    H = s["eps"] * embed(None, dims, {0: Z}) + s["delta"] * embed(None, dims, {0: X})
    for i, p in enumerate(phs):
        n = dims[i + 1]
        b, bd = ladder(n)
        wq = p.omega[0]
        H += wq * embed(None, dims, {i + 1: np.diag(np.arange(n)) + 0.5 * np.eye(n)})
        H += (-p.omega[1] ** 2 * p.dis[1]) * embed(None, dims, {0: Z, i + 1: np.sqrt(0.5 / wq) * (b + bd)})
    dev = float(np.abs(got - H).max())
    if dev > 1e-10 * max(float(np.abs(H).max()), 1e-300):
        raise V({"C16"}, "C16.spinboson", f"SpinBosonModel terms differ from the documented Hamiltonian by {dev:.3e}")
    w.stats.probes["spinboson_models"] += 1
    return "done"


@op("ti1d")
def op_ti1d(w, s):
    ncell = s["ncell"]
    basis = [ba.BasisHalfSpin("s")]
    if s.get("two"):
        basis.append(ba.BasisHalfSpin("t"))
    names = [b.dof for b in basis]
    local = [Op(sym, names[k % len(names)], f) for (sym, k, f) in s["local"]]
    nonlocal_ = [Op(f"{a} {b_}", [(0 + s.get("shift", 0), names[k1 % len(names)]), (r + s.get("shift", 0), names[k2 % len(names)])], f) for (a, b_, k1, k2, r, f) in s["nonlocal"]]
    model = TI1DModel(basis, local, nonlocal_, ncell)
    got = dense.dense_op(model, model.ham_terms)
    nb = len(basis)
    dims = [2] * (nb * ncell)
    pm = {"X": np.array([[0, 1.0], [1.0, 0]]), "Z": np.diag([1.0, -1.0]), "Y": np.array([[0, -1j], [1j, 0]])}
    H = np.zeros((2 ** (nb * ncell),) * 2, dtype=complex)
    for c in range(ncell):
        for (sym, k, f) in s["local"]:
            H += f * embed(None, dims, {c * nb + k % nb: pm[sym]})
        for (a, b_, k1, k2, r, f) in s["nonlocal"]:
            i1 = (c % ncell) * nb + k1 % nb
            i2 = ((c + r) % ncell) * nb + k2 % nb
            if i1 == i2:
                H += f * embed(None, dims, {i1: pm[a] @ pm[b_]})
            else:
                H += f * embed(None, dims, {i1: pm[a], i2: pm[b_]})
    dev = float(np.abs(got - H).max())
    if dev > 1e-10 * max(float(np.abs(H).max()), 1e-300):
        raise V({"C16"}, "C16.ti1d", f"TI1DModel(ncell={ncell}) differs from the documented periodic Hamiltonian by {dev:.3e}")
    w.stats.probes["ti1d_models"] += 1
    return "done"


# ---------------------------------------------------------------------------------- scheduler

class C16Profile(session.Profile):
    pid = "C16"
    world_cls = World

    def gen_header(self, rnd, tier):
        bases = []
        for _ in range(rnd.randint(2, 5)):
            t = rnd.choice(["sho", "sho", "sho", "sine", "sine", "spin", "elec", "multi", "multivac", "hops"])
            if t == "sho":
                sp = {"type": "sho", "omega": round(rnd.uniform(0.3, 3.0), 4), "nbas": rnd.randint(1, 8)}
                if rnd.random() < 0.4:
                    sp["x0"] = round(rnd.uniform(-2, 2), 3)
                if rnd.random() < 0.3 and sp["nbas"] >= 2:
                    sp["dvr"] = True
                    sp.pop("x0", None)
            elif t == "sine":
                xi = round(rnd.uniform(-2, 1), 3)
                sp = {"type": "sine", "nbas": rnd.randint(2, 6), "xi": xi, "xf": round(xi + rnd.uniform(0.5, 4), 3), "endpoint": rnd.random() < 0.3,
                      "dvr": rnd.random() < 0.5}
            elif t in ("multi", "multivac"):
                sp = {"type": t, "k": rnd.randint(2, 4)}
            elif t == "hops":
                sp = {"type": t, "nbas": rnd.randint(2, 6)}
            else:
                sp = {"type": t}
            bases.append(sp)
        return {"bases": bases}

    def nsteps(self, rnd, tier):
        return rnd.randint(8, 30)

    def weights(self, header):
        return {"op_mat": 6, "unsupported": 3, "relation": 5, "use_in_model": 1, "holstein": 0.6, "spinboson": 0.2, "ti1d": 0.3}

    def propose(self, w, rnd, weights):
        names = list(weights)
        for _ in range(20):
            name = rnd.choices(names, [weights[n] for n in names])[0]
            hs = list(w.h)
            h = rnd.choice(hs)
            e = w.h[h]
            if name == "op_mat" and e.kind in SUPPORTED:
                s = {"op": "op_mat", "b": h, "sym": rnd.choice(SUPPORTED[e.kind])}
                if rnd.random() < 0.3:
                    s["as_op"] = True
                    s["factor"] = round(rnd.uniform(-2, 2), 3)
                return s
            if name == "unsupported" and e.kind in UNSUPPORTED:
                return {"op": "unsupported", "b": h, "sym": rnd.choice(UNSUPPORTED[e.kind])}
            if name == "relation":
                s = {"op": "relation", "b": h, "which": rnd.choice(["products", "commutator", "powers", "variants"]) if e.kind == "sho" else
                     rnd.choice(["integral", "algebra"]) if e.kind == "sine" else "all",
                     "i": rnd.randrange(4), "j": rnd.randrange(4)}
                if e.kind == "sine":
                    s["sym"] = rnd.choice(["x", "x^2", "x^3", "dx", "dx^2", "x dx", "x^2 dx", "x dx^2", "x^2 dx^2", "x^3 dx^2"])
                if e.kind == "spin":
                    s["word"] = [rnd.choice(["X", "Y", "Z", "sigma_+", "sigma_-"]) for _ in range(rnd.randint(2, 4))]
                return s
            if name == "use_in_model":
                hs2 = [x for x in hs if w.h[x].kind in ("sho", "spin", "elec", "sine")]
                if not hs2:
                    continue
                pick = rnd.sample(hs2, rnd.randint(1, len(hs2)))
                syms = [{"sho": rnd.choice(["x", "p^2", "x^2", "n"]), "spin": rnd.choice(["X", "Z"]), "elec": r"a^\dagger a",
                         "sine": rnd.choice(["x", "p^2", "x^2"])}[w.h[x].kind] for x in pick]
                return {"op": "use_in_model", "bases": pick, "syms": syms}
            if name == "holstein":
                nmol = rnd.randint(1, 3)
                nph = rnd.randint(1, 2)
                # keep the dense reference small: (2 * n^nph)^nmol <= ~600
                nmax = 3 if (nmol, nph) in ((1, 1), (1, 2), (2, 1)) else 2
                if nmol == 3 and nph == 2:
                    nph = 1
                ph = [[{"w0": round(rnd.uniform(0.5, 2), 3), "w1": 0, "d": round(rnd.uniform(-1, 1), 3), "n": rnd.randint(2, nmax)} for _ in range(nph)] for _ in range(rnd.choice([1, nmol]))]
                for row in ph:
                    for pp in row:
                        pp["w1"] = pp["w0"] if rnd.random() < 0.6 else round(pp["w0"] * rnd.uniform(0.7, 1.3), 3)
                s = {"op": "holstein", "nmol": nmol, "nph": nph, "ph": ph, "elocalex": [round(rnd.uniform(0, 2), 3) for _ in range(nmol)],
                     "J": round(rnd.uniform(-1, 1), 3) or 0.1, "scheme": rnd.choice([1, 2, 3, 4]), "periodic": rnd.random() < 0.4 and nmol >= 3}
                if rnd.random() < 0.3 and nmol >= 2:
                    jm = np.zeros((3, 3))
                    for i in range(3):
                        for j in range(i + 1, 3):
                            jm[i, j] = jm[j, i] = round(rnd.uniform(-1, 1), 3)
                    s["jmatrix"] = jm.tolist()
                    s["periodic"] = False
                return s
            if name == "spinboson":
                return {"op": "spinboson", "eps": round(rnd.uniform(-1, 1), 3), "delta": round(rnd.uniform(-1, 1), 3),
                        "ph": [{"w": round(rnd.uniform(0.5, 2), 3), "d": round(rnd.uniform(-1, 1), 3), "n": rnd.randint(2, 3)} for _ in range(rnd.randint(1, 3))]}
            if name == "ti1d":
                two = rnd.random() < 0.4
                return {"op": "ti1d", "ncell": rnd.randint(2, 4 if not two else 3), "two": two, "shift": rnd.choice([0, 0, 1]),
                        "local": [[rnd.choice("XZ"), rnd.randrange(2), round(rnd.uniform(-1, 1), 3)] for _ in range(rnd.randint(1, 2))],
                        "nonlocal": [[rnd.choice("XYZ"), rnd.choice("XYZ"), rnd.randrange(2), rnd.randrange(2), rnd.choice([1, 1, 2, 3]), round(rnd.uniform(-1, 1), 3)]
                                     for _ in range(rnd.randint(1, 2))]}
        return None

    def nontrivial_key(self, w, step):
        if step["op"] in ("op_mat", "relation", "unsupported"):
            e = w.h[step["b"]]
            if e.obj.nbas < 2:
                return None
            return f"{step['op']}:{e.kind}:{step.get('sym', step.get('which'))}:{e.obj.nbas}:{int(bool(e.spec.get('dvr')))}:{int(bool(e.spec.get('x0')))}"
        return f"{step['op']}:{step.get('scheme', '')}:{step.get('nmol', step.get('ncell', ''))}:{step.get('periodic', '')}"


PROFILE = C16Profile()


def generate_and_run(seed, index, tier):
    return session.generate_and_run(PROFILE, seed, index, tier)


def replay(plan):
    return session.replay(PROFILE, plan)
