"""C05: truncating compression on the chain world (runs 0,1 mod 3) and on the tree world (2 mod 3)."""
import random
from simlab import session
from simlab.profiles.chainprof import ChainProfile
from simlab.profiles.treeprof import TreeProfile

ID = "C05"
_P = {"chain": ChainProfile("C05"), "tree": TreeProfile("C05")}


def generate_and_run(seed, index, tier):
    fam = "tree" if index % 3 == 2 else "chain"
    prof = _P[fam]
    rnd = random.Random(seed)
    header = prof.gen_header(rnd, tier)
    header["tier"] = tier
    header["family"] = fam
    return session._run(prof, header, None, rnd, prof.nsteps(rnd, tier), tier)


def replay(plan):
    return session.replay(_P[plan["header"].get("family", "chain")], plan)
