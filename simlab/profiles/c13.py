"""C13: non-disturbance monitor over algebra sessions (even runs) and evolution / thermal sessions (odd runs)."""
from simlab import session
from simlab.profiles.chainprof import ChainProfile
from simlab.profiles.evoprof import EvoProfile, W_C09, W_C10

ID = "C13"
_A = ChainProfile("C13")
_W = dict(W_C10)
_W.update(evolve=5.0, evolve_imag=4.0, alias_mutate=1.0, drop=0.8, spill=0.6, observe=1.0, truncate=0.5, add=1.0, apply=1.0)
_B = EvoProfile("C13", _W)


def _prof(header):
    return _B if header.get("family") == "evo" else _A


def generate_and_run(seed, index, tier):
    prof = _B if index % 2 else _A
    import random
    rnd = random.Random(seed)
    header = prof.gen_header(rnd, tier)
    header["tier"] = tier
    header["family"] = "evo" if index % 2 else "algebra"
    return session._run(prof, header, None, rnd, prof.nsteps(rnd, tier), tier)


def replay(plan):
    prof = _prof(plan["header"])
    return session.replay(prof, plan)
