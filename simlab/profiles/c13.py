"""C13: non-disturbance monitor over algebra sessions (0 mod 3), evolution / thermal sessions (1 mod 3) and tree sessions (2 mod 3)."""
from simlab import session
from simlab.profiles.chainprof import ChainProfile
from simlab.profiles.evoprof import EvoProfile, W_C09, W_C10
from simlab.profiles.treeprof import TreeProfile

ID = "C13"
_A = ChainProfile("C13")
_W = dict(W_C10)
_W.update(evolve=5.0, evolve_imag=4.0, alias_mutate=1.0, drop=0.8, spill=0.6, observe=1.0, truncate=0.5, add=1.0, apply=1.0)
_B = EvoProfile("C13", _W)
_C = TreeProfile("C13")
_FAM = {"algebra": _A, "evo": _B, "tree": _C}


def _prof(header):
    return _FAM[header.get("family", "algebra")]


def generate_and_run(seed, index, tier):
    fam = ["algebra", "evo", "tree"][index % 3]
    prof = _FAM[fam]
    import random
    rnd = random.Random(seed)
    header = prof.gen_header(rnd, tier)
    header["tier"] = tier
    header["family"] = fam
    return session._run(prof, header, None, rnd, prof.nsteps(rnd, tier), tier)


def replay(plan):
    prof = _prof(plan["header"])
    return session.replay(prof, plan)
