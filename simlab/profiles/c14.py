"""C14 — saved states reload identically; result dumps survive a crash.   (fault_enumeration)

Run kinds (chosen per run from the seed):
  job        : a real TdMpsJob (MiniJob / ThermalProp) is run under SimFS; EVERY file-system mutation of the whole job
               is a crash point (plus torn prefixes of every raw write); each crash state is judged; then restarted
               jobs are run into crash states (sampled in quick, all in thorough) and judged again (crash->restart->crash);
               I/O-error variants (ENOSPC/EIO/EACCES on write/rename/remove) exercise the `except IOError` path of
               TdMpsJob.evolve; bounded liveness after faults stop.
  roundtrip  : dump -> load of generated Mps / MpDm / TTNS states (any gauge, complex, prefactor, spilled), bit-exact,
               identical continuation; I/O faults during dump.
  spill      : per-site spill files under mkdir/save/load faults, drop + gc of other objects, id reuse.
"""
import gc
import io
import os
import random
import shutil
import tempfile
import zipfile

import numpy as np

from simlab import env
from simlab.core import Violation, HarnessError, Stats, Digest, jsonable
from simlab.seams.fs import SimFS, read_tree, write_tree, torn, _real_open

import renormalizer  # noqa: F401  (real library, from /repo working tree)
from renormalizer.model import Model, Op, HolsteinModel, Mol, Phonon
from renormalizer.model import basis as ba
from renormalizer.mps import Mps, Mpo, MpDm
from renormalizer.mps.thermalprop import ThermalProp
from renormalizer.utils import Quantity, EvolveConfig, EvolveMethod, CompressConfig, CompressCriteria
from renormalizer.utils.tdmps import TdMpsJob
import renormalizer.utils.tdmps as tdmps_mod

ID = "C14"
JOBNAME = "job"


# ---------------------------------------------------------------------------------------------- jobs

def spin_model(n, rnd):
    basis = [ba.BasisHalfSpin(i) for i in range(n)]
    terms = []
    for i in range(n - 1):
        terms += [Op("sigma_z sigma_z", [i, i + 1], rnd.uniform(0.2, 1.0)),
                  Op("sigma_+ sigma_-", [i, i + 1], 0.5), Op("sigma_- sigma_+", [i, i + 1], 0.5)]
    for i in range(n):
        terms.append(Op("sigma_x", i, rnd.uniform(-0.5, 0.5)))
    return Model(basis, terms)


def tiny_holstein(rnd, nmol=2, nph=1, pdim=2):
    ph_list = [Phonon.simple_phonon(Quantity(rnd.uniform(0.5, 1.5)), Quantity(rnd.uniform(0.3, 1.0)), pdim) for _ in range(nph)]
    mols = [Mol(Quantity(rnd.uniform(0.0, 0.5)), ph_list, 1.0) for _ in range(nmol)]
    return HolsteinModel(mols, Quantity(rnd.uniform(0.1, 0.5)))


class MiniJob(TdMpsJob):
    """Smallest concrete job: real Mps.evolve step, step-tagged dump content of configurable size."""

    def __init__(self, model, blob, evolve_config, **kw):
        self.model = model
        self.mpo = Mpo(model)
        self.blob = blob
        self.obs = []
        super().__init__(evolve_config=evolve_config, **kw)

    def init_mps(self):
        mps = Mps.hartree_product_state(self.model, {})
        mps.compress_config = CompressConfig(CompressCriteria.fixed, max_bonddim=4)
        mps.evolve_config = self.evolve_config
        return mps

    def process_mps(self, mps):
        self.obs.append(mps.expectation(self.mpo))

    def evolve_single_step(self, evolve_dt):
        return self.latest_mps.evolve(self.mpo, evolve_dt)

    def get_dump_dict(self):
        n = len(self.evolve_times)
        return {"tag": np.array(n), "times": self.evolve_times_array, "obs": np.array(self.obs),
                "blob": np.arange(self.blob, dtype=float) * n, "info": {"step": n, "name": "mini"}}


def make_job(cfg, dump_dir):
    rnd = random.Random(cfg["model_seed"])
    kind = cfg["job"]
    if kind == "mini":
        model = spin_model(cfg["nsite"], rnd)
        method = {"pc": EvolveMethod.prop_and_compress, "ps": EvolveMethod.tdvp_ps}[cfg["method"]]
        return MiniJob(model, cfg["blob"], EvolveConfig(method), dump_mps=cfg["dump_mps"], dump_dir=dump_dir, job_name=JOBNAME), cfg["dt"]
    if kind == "thermal":
        model = tiny_holstein(rnd, nmol=2, nph=1, pdim=2)
        init = MpDm.max_entangled_ex(model)
        init.compress_config = CompressConfig(CompressCriteria.fixed, max_bonddim=4)
        job = ThermalProp(init, exact=cfg.get("exact", False), space="EX", evolve_config=EvolveConfig(EvolveMethod.prop_and_compress),
                          dump_mps=cfg["dump_mps"], dump_dir=dump_dir, job_name=JOBNAME, auto_expand=False)
        return job, -1j * abs(cfg["dt"])
    raise HarnessError(f"unknown job kind {kind}")


# ---------------------------------------------------------------------------------------------- savez marking

_orig_savez = np.savez
_orig_dump_dict = TdMpsJob.dump_dict


class DumpRecorder:
    """Marks the periodic result dumps in the event stream, implementation-agnostically:
    a dump *begins* when np.savez is called (inside TdMpsJob.dump_dict) for a file named <job>.<something> -- its
    content is recorded there -- and is *completed* when dump_dict returns normally."""

    def __init__(self):
        self.fs = None
        self.history = None  # list of {"content": {...}, "begin": k, "end": k or None, "run": n}
        self.run_no = 0
        self.in_dump = False
        self.cur = None

    def savez(self, file, *args, **kwds):
        fs = self.fs
        if (fs is not None and self.in_dump and self.cur is None and isinstance(file, str)
                and os.path.basename(file).startswith(JOBNAME + ".") and fs.under(file)):
            self.cur = {"content": {k: np.array(v, dtype=object) if isinstance(v, dict) else np.asarray(v) for k, v in kwds.items()},
                        "begin": fs.k, "end": None, "run": self.run_no}
            self.history.append(self.cur)
            fs.mark("dump_begin", len(self.history) - 1)
        return _orig_savez(file, *args, **kwds)

    def dump_dict(self, job):
        if self.fs is None:
            return _orig_dump_dict(job)
        self.in_dump, self.cur = True, None
        try:
            r = _orig_dump_dict(job)
        finally:
            self.in_dump = False
        if self.cur is not None:
            self.cur["end"] = self.fs.k
            self.fs.mark("dump_end", len(self.history) - 1)
        return r


RECORDER = DumpRecorder()
np.savez = RECORDER.savez
TdMpsJob.dump_dict = lambda self: RECORDER.dump_dict(self)


class FakeDatetime:
    """SimClock for tdmps.datetime: deterministic, may jump backwards (wall clock is used for logging only)."""
    _t = 0
    _jumps = ()

    @classmethod
    def now(cls):
        import datetime as _dt
        cls._t += 1
        off = -3600 if cls._t in cls._jumps else 0
        return _dt.datetime(2026, 1, 1) + _dt.timedelta(seconds=cls._t * 7 + off)


tdmps_mod.datetime = FakeDatetime


# ---------------------------------------------------------------------------------------------- oracle

def try_load(data):
    """Return dict of arrays if `data` is a complete loadable npz, else None."""
    if data is None:
        return None
    try:
        with np.load(io.BytesIO(data), allow_pickle=True) as z:
            return {k: z[k] for k in z.files}
    except Exception:
        return None


def same_content(a, b):
    if a is None or b is None or set(a) != set(b):
        return False
    for k in a:
        x, y = np.asarray(a[k]), np.asarray(b[k])
        if x.shape != y.shape:
            return False
        if x.dtype == object or y.dtype == object:
            if repr(x.tolist()) != repr(y.tolist()):
                return False
        elif not np.array_equal(x, y, equal_nan=True):
            return False
    return True


def judge(tree, history, k, run_no, stats, what):
    """The C14 crash oracle for the directory content `tree` as left by a process death before event k."""
    completed = [i for i, h in enumerate(history) if h["end"] is not None and (h["run"] < run_no or h["end"] <= k)]
    if not completed:
        return False  # nothing promised yet
    c = completed[-1]
    floor = c  # strict: the last completed dump or a newer one must be loadable
    cands = []
    for name in (JOBNAME + ".npz", JOBNAME + ".npz.bak"):
        got = try_load(tree.get(name))
        if got is not None:
            cands.append((name, got))
    ok = False
    for name, got in cands:
        for j in range(floor, len(history)):
            if same_content(got, history[j]["content"]):
                ok = True
    stats.probes["crash_states_judged"] += 1
    if not ok:
        present = {n: (len(b) if b is not None else None) for n, b in tree.items()}
        loadable = [(n, {kk: np.asarray(v).tolist() if np.asarray(v).size < 4 and np.asarray(v).dtype != object else "..." for kk, v in g.items()}) for n, g in cands]
        raise Violation("C14.crash.no_complete_result_file",
                        f"{what}: after death before fs event {k} of run {run_no} no complete result file of the current or previous "
                        f"dump remains (last completed dump #{c}, floor #{floor}); files={present}; loadable={loadable}",
                        sig="crash.no_complete_result_file")
    return True


# ---------------------------------------------------------------------------------------------- engines

class JobSim:
    def __init__(self, stats, digest, tier):
        self.stats = stats
        self.digest = digest
        self.tier = tier
        self.root = tempfile.mkdtemp(prefix="c14_", dir=env.scratch_root())

    def close(self):
        shutil.rmtree(self.root, ignore_errors=True)

    def fresh_dir(self, tree=None):
        d = tempfile.mkdtemp(prefix="d_", dir=self.root)
        if tree:
            write_tree(d, tree)
        return d

    def run_job(self, cfg, start_tree, history, run_no, faults=None, path_faults=None, collect=True, liveness=True):
        """Run one job to completion under SimFS in a fresh directory pre-populated with start_tree.
        Returns list of crash states [(k, kind, rel, tornlen, tree)] and the final tree."""
        d = self.fresh_dir(start_tree)
        fs = SimFS(d)
        states = []
        torn_lens = cfg.get("torn", [0.5])

        def on_event(k, kind, rel, data, pos):
            tree = read_tree(d)
            states.append((k, kind, rel, -1, tree))
            if kind == "write" and data:
                L = len(data)
                lens = sorted({1, L - 1} | {max(1, min(L - 1, int(L * f))) for f in torn_lens})
                for n in lens:
                    if 0 < n < L:
                        states.append((k, kind, rel, n, torn(tree, rel, data, pos, n)))

        if collect:
            fs.on_event = on_event
        if faults:
            fs.faults.update({int(k): tuple(v) for k, v in faults.items()})
        if path_faults:
            for pf in path_faults:
                fs.path_faults.append((_pred(pf), (pf["fault"], pf.get("arg", 0)), pf.get("count", 1)))
        RECORDER.fs, RECORDER.history, RECORDER.run_no = fs, history, run_no
        FakeDatetime._t = 0
        FakeDatetime._jumps = tuple(cfg.get("clock_jumps", ()))
        np.random.seed(cfg["model_seed"] % (2 ** 31))
        try:
            with fs:
                job, dt = make_job(cfg, d)
                job.evolve(dt, cfg["nsteps"])
        finally:
            RECORDER.fs = None
        final = read_tree(d)
        for name, n in fs.fired_counts.items():
            self.stats.faults[name] += n
        self.stats.ops["job_" + cfg["job"]] += 1
        self.stats.sim_steps += cfg["nsteps"]
        self.stats.sim_time += abs(cfg["dt"]) * cfg["nsteps"]
        self.digest.add("job", run_no, [(k, kind, rel, n) for (k, kind, rel, n) in fs.log], sorted((r, _sha(b)) for r, b in final.items()))
        nfired = sum(fs.fired_counts.values())
        if liveness and not nfired:
            self.check_liveness(final, history, cfg, run_no)
        shutil.rmtree(d, ignore_errors=True)
        return states, final, fs

    def check_liveness(self, final, history, cfg, run_no):
        """Once faults stop: after a further successful step the directory holds exactly one complete current file."""
        names = [n for n in final if not n.endswith("/")]
        got = try_load(final.get(JOBNAME + ".npz"))
        last = history[-1]
        bad = None
        if got is None or not same_content(got, last["content"]):
            bad = "job.npz is not the complete current dump"
        elif JOBNAME + ".npz.bak" in final:
            bad = "stale backup left behind"
        else:
            extra = [n for n in names if not (n == JOBNAME + ".npz" or n.startswith(JOBNAME + "_mps"))]
            if extra:
                bad = f"unexpected files {extra}"
        self.stats.probes["liveness_checked"] += 1
        if bad:
            raise Violation("C14.liveness.directory_not_clean", f"after a fault-free run {run_no}: {bad}; files={names}",
                            sig="liveness.directory_not_clean")

    def fork_crosscheck(self, cfg, start_tree, history_len, run_no, states, ks):
        """Fork engine: re-run the same job in a child that _exits at event k; the directory it leaves must be
        byte-identical to the snapshot engine's state for k."""
        by_k = {k: tree for (k, kind, rel, n, tree) in states if n == -1}
        for k in ks:
            if k not in by_k:
                continue
            d = self.fresh_dir(start_tree)
            pid = os.fork()
            if pid == 0:
                try:
                    fs = SimFS(d)
                    fs.faults[k] = ("exit", 0)
                    RECORDER.fs, RECORDER.history, RECORDER.run_no = fs, [], run_no
                    FakeDatetime._t = 0
                    np.random.seed(cfg["model_seed"] % (2 ** 31))
                    fs.install()
                    job, dt = make_job(cfg, d)
                    job.evolve(dt, cfg["nsteps"])
                finally:
                    os._exit(3)
            _, status = os.waitpid(pid, 0)
            code = os.waitstatus_to_exitcode(status)
            left = read_tree(d)
            shutil.rmtree(d, ignore_errors=True)
            if code != 137:
                raise HarnessError(f"fork engine: child exit code {code} at k={k}")
            if left != by_k[k]:
                raise HarnessError(f"engine disagreement at k={k}: fork left {_summ(left)}, snapshot {_summ(by_k[k])}")
            self.stats.probes["fork_engine_crosschecks"] += 1


def _pred(pf):
    kind, sub = pf.get("kind"), pf.get("path", "")

    def p(k, rel):
        return (kind is None or k == kind) and sub in rel
    return p


def _sha(b):
    import hashlib
    return hashlib.sha256(b).hexdigest()[:12] if b is not None else None


def _summ(tree):
    return {r: (len(b) if b is not None else None) for r, b in tree.items()}


# ---------------------------------------------------------------------------------------------- run kinds

def gen_cfg(rnd, tier):
    job = rnd.choices(["mini", "thermal"], [0.8, 0.2])[0]
    cfg = {
        "job": job,
        "model_seed": rnd.randrange(2 ** 30),
        "nsite": rnd.choice([2, 3]),
        "method": rnd.choice(["pc", "ps"]),
        "nsteps": rnd.choice([1, 2, 2, 3, 4] if job == "mini" else [1, 2]),
        "dt": rnd.choice([0.05, 0.1, 0.3]),
        "blob": rnd.choice([0, 3, 40, 700, 9000]),
        "dump_mps": rnd.choice([None, None, "one", "all"]),
        "torn": sorted({round(rnd.random(), 3) for _ in range(rnd.choice([1, 2]))}),
        "clock_jumps": sorted({rnd.randrange(1, 12) for _ in range(rnd.choice([0, 0, 2]))}),
        "exact": False,
    }
    return cfg


def run_kind_job(rnd, tier, stats, digest):
    cfg = gen_cfg(rnd, tier)
    sim = JobSim(stats, digest, tier)
    keys = set()
    evaluations = 0
    plan = {"kind": "job", "cfg": cfg, "steps": []}
    try:
        # ---- level 1: single crash, exhaustive
        history = []
        states, final, fs = sim.run_job(cfg, None, history, 0)
        plan["n_fs_events_run0"] = fs.k
        for (k, kind, rel, n, tree) in states:
            plan_step = {"op": "crash", "run": 0, "k": k, "torn": n}
            try:
                nt = judge(tree, history, k, 0, stats, f"single crash at {kind}({rel}) torn={n}")
            except Violation as v:
                v.data["step"] = plan_step
                raise
            evaluations += 1
            if nt:
                keys.add(f"{cfg['model_seed']}:0:{k}:{n}")
        stats.probes["single_crash_spaces_enumerated"] += 1
        # fork engine cross-validation on a few crash points
        ks = sorted({rnd.randrange(fs.k) for _ in range(3 if tier == "quick" else 6)})
        sim.fork_crosscheck(cfg, None, 0, 0, states, ks)

        # ---- level 2: restart into a crash state, crash again
        cand = [s for s in states]
        nrestart = cfg_restarts(tier, len(cand), rnd)
        interesting = [s for s in cand if s[2].startswith(JOBNAME + ".npz") or s[1] in ("rename", "remove")]
        chosen = []
        if nrestart >= len(cand):
            chosen = cand
        else:
            pool = interesting if interesting else cand
            chosen = [pool[rnd.randrange(len(pool))] for _ in range(nrestart)]
        cfg2 = dict(cfg)
        cfg2["nsteps"] = rnd.choice([1, 2])
        cfg2["model_seed"] = cfg["model_seed"] + 1
        for (k, kind, rel, n, tree) in chosen:
            hist2 = [dict(h) for h in history if h["begin"] < k or (h["begin"] == k and False)]
            for h in hist2:
                if h["end"] is not None and h["end"] > k:
                    h["end"] = None
            plan_step = {"op": "restart", "after_crash": {"run": 0, "k": k, "torn": n}, "cfg2_nsteps": cfg2["nsteps"]}
            plan["steps"].append(plan_step)
            states2, final2, fs2 = sim.run_job(cfg2, tree, hist2, 1)
            for (k2, kind2, rel2, n2, tree2) in states2:
                try:
                    nt = judge(tree2, hist2, k2, 1, stats, f"crash at k={k} (torn={n}) -> restart -> crash at {kind2}({rel2}) torn={n2}")
                except Violation as v:
                    v.data["step"] = dict(plan_step, second_crash={"k": k2, "torn": n2})
                    raise
                evaluations += 1
                if nt:
                    keys.add(f"{cfg['model_seed']}:0:{k}:{n}:1:{k2}:{n2}")
            stats.probes["restart_runs"] += 1
            # level 3 (thorough, sampled): third generation
            if tier == "thorough" and states2 and rnd.random() < 0.15:
                (k2, kind2, rel2, n2, tree2) = states2[rnd.randrange(len(states2))]
                hist3 = [dict(h) for h in hist2 if h["run"] < 1 or h["begin"] < k2]
                for h in hist3:
                    if h["run"] == 1 and h["end"] is not None and h["end"] > k2:
                        h["end"] = None
                states3, _, _ = sim.run_job(cfg2, tree2, hist3, 2)
                for (k3, kind3, rel3, n3, tree3) in states3:
                    judge(tree3, hist3, k3, 2, stats, f"third-generation crash k={k}->{k2}->{k3}")
                    evaluations += 1
                stats.probes["third_generation_runs"] += 1

        # ---- directories left behind by an interrupted dump of the PREVIOUS on-disk protocol (rename to .bak, write in place):
        # {job.npz.bak complete, job.npz fragment} and {job.npz.bak complete only}.  A job restarted into them must keep a
        # complete file at every instant, too (dump_dict still knows about .bak files).
        full = [(k, tree) for (k, kind, rel, n, tree) in states if n == -1 and try_load(tree.get(JOBNAME + ".npz")) is not None]
        if full:
            done = [h for h in history if h["end"] is not None]
            for variant in (["fragment", "bak_only"] if tier != "quick" else [rnd.choice(["fragment", "bak_only"])]):
                kq, tq = full[rnd.randrange(len(full))]
                good = tq[JOBNAME + ".npz"]
                legacy = {JOBNAME + ".npz.bak": good}
                if variant == "fragment":
                    legacy[JOBNAME + ".npz"] = good[:max(1, int(len(good) * rnd.choice([0.1, 0.5, 0.9])))]
                # what had been promised: everything up to the dump this complete file belongs to
                gl = try_load(good)
                jj = [j for j, h in enumerate(history) if same_content(gl, h["content"])]
                if not jj:
                    continue
                hist_l = [dict(h, run=0, end=(h["end"] if h["end"] is not None else h["begin"] + 1)) for h in history[:jj[-1] + 1]]
                plan_step = {"op": "restart_legacy_dir", "variant": variant, "from_k": kq}
                plan["steps"].append(plan_step)
                states_l, _, _ = sim.run_job(cfg2, legacy, hist_l, 1)
                for (k2, kind2, rel2, n2, tree2) in states_l:
                    try:
                        nt = judge(tree2, hist_l, k2, 1, stats, f"restart into a legacy directory ({variant}) -> crash at {kind2}({rel2}) torn={n2}")
                    except Violation as v:
                        v.data["step"] = dict(plan_step, second_crash={"k": k2, "torn": n2})
                        raise
                    evaluations += 1
                    if nt:
                        keys.add(f"{cfg['model_seed']}:legacy:{variant}:{k2}:{n2}")
                stats.probes["legacy_dir_restarts"] += 1

        # ---- I/O error variants: the job must survive (IOError caught by evolve) and never lose the last complete dump
        for _ in range(2 if tier == "quick" else 4):
            fk = rnd.choice(["enospc", "eio", "eacces", "torn", "short"])
            target = rnd.choice(["write", "write", "rename", "remove", "open_w"])
            if fk in ("torn", "short"):
                target = "write"
            count = rnd.choice([1, 1, 2, 5])
            skip = rnd.randrange(0, max(1, fs.k // 2))
            pf = {"kind": target, "path": JOBNAME + ".npz", "fault": fk, "arg": rnd.randrange(1, 64), "count": count}
            hist_f = []
            plan_step = {"op": "io_faults", "path_fault": pf, "first_at": skip}
            plan["steps"].append(plan_step)
            faults = None
            # arm the path fault only from event `skip` on: emulate by an index fault list computed from the clean log
            idx = [e[0] for e in fs.log if e[1] == target and JOBNAME + ".npz" in e[2] and e[0] >= skip][:count]
            faults = {i: (fk, pf["arg"]) for i in idx}
            if not faults:
                continue
            try:
                states_f, final_f, fs_f = sim.run_job(cfg, None, hist_f, 0, faults=faults, liveness=False)
            except OSError as e:
                raise Violation("C14.ioerror.job_aborted", f"job aborted by an I/O error that evolve() promises to survive: {e!r} with {pf}",
                                sig="ioerror.job_aborted", data={"step": plan_step})
            for (k2, kind2, rel2, n2, tree2) in states_f:
                try:
                    nt = judge(tree2, hist_f, k2, 0, stats, f"io-fault {fk}@{target}x{count} then crash at {kind2}({rel2}) torn={n2}")
                except Violation as v:
                    v.data["step"] = dict(plan_step, crash={"k": k2, "torn": n2})
                    raise
                evaluations += 1
                if nt:
                    keys.add(f"{cfg['model_seed']}:f:{fk}:{target}:{skip}:{k2}:{n2}")
            # liveness: faults have stopped; a further fault-free job into the same directory must leave it clean
            hist_l = [dict(h) for h in hist_f]
            _, final_l, _ = sim.run_job(cfg2, final_f, hist_l, 1, collect=False, liveness=True)
        plan["steps"] = plan["steps"][:40]
        return plan, evaluations, keys
    finally:
        sim.close()


def cfg_restarts(tier, n, rnd):
    if tier == "quick":
        return 5
    return n if rnd.random() < 0.25 else 25


# ---------------------------------------------------------------------------------------------- entry points

KINDS = {"job": run_kind_job}


def _run(kind, seed, tier):
    rnd = random.Random(seed)
    stats = Stats()
    digest = Digest()
    res = {"status": "ok"}
    gc.disable()
    try:
        plan, evaluations, keys = KINDS[kind](rnd, tier, stats, digest)
        res.update(plan=plan, evaluations=evaluations, nontrivial_keys=sorted(keys)[:20000], nsteps=evaluations)
    except Violation as v:
        res.update(status="violation", violation={"inv": v.inv, "detail": v.detail, "sig": v.sig, "step": -1, "data": jsonable(v.data)},
                   plan={"kind": kind, "seed": seed, "tier": tier, "steps": [v.data.get("step", {})]})
    finally:
        gc.enable()
    res["digest"] = digest.hex()
    res["stats"] = stats.to_dict()
    return res


def pick_kind(seed):
    rnd = random.Random(seed ^ 0x5EED)
    return rnd.choices(list(KINDS), [1.0] * len(KINDS))[0]


_WORLD = {}


def _world_profile(fam):
    if fam not in _WORLD:
        from simlab.profiles.chainprof import ChainProfile
        from simlab.profiles.treeprof import TreeProfile
        _WORLD[fam] = ChainProfile("C14") if fam == "chain_io" else TreeProfile("C14")
    return _WORLD[fam]


def generate_and_run(seed, index, tier):
    # runs 0,1 mod 4: job crash enumeration; 2 mod 4: chain round trips + spill sessions; 3 mod 4: tree round trips
    fam = ["job", "job", "chain_io", "tree_io"][index % 4]
    if fam == "job":
        return _run(pick_kind(seed), seed, tier)
    from simlab import session
    prof = _world_profile(fam)
    rnd = random.Random(seed)
    header = prof.gen_header(rnd, tier)
    header["tier"] = tier
    header["family"] = fam
    return session._run(prof, header, None, rnd, prof.nsteps(rnd, tier), tier)


def replay(plan):
    # a job run is a pure function of (kind, seed, tier): the plan records them; crash indices in the violation
    # identify the failing state.  Replaying re-enumerates the same space and must hit the same invariant.
    if "header" in plan:
        from simlab import session
        return session.replay(_world_profile(plan["header"].get("family", "chain_io")), plan)
    return _run(plan["kind"], plan["seed"], plan.get("tier", "quick"))
