from simlab import chain_swap  # noqa: F401 (registers ops + SimSwap seam)
from simlab.profiles.gsprof import make_module_api
ID = "C17"
W_C17 = {"qc_model": 2.0, "mps_random": 2.5, "mps_product": 0.8, "mpo_ham": 1.0, "optimize_ofs": 5.0, "evolve_ofs": 3.0, "swap": 1.0, "optimize": 0.5,
         "unary": 0.4, "observe": 0.4, "drop": 0.2}
generate_and_run, replay = make_module_api("C17", W_C17, flavours=["spin", "spinqn", "eph", "two", "mixed"], maxdims=(16, 36, 64))
