"""C06: sector / label monitor over algebra sessions (runs 0 mod 4), real-time (1 mod 4), imaginary-time/thermal (2 mod 4) and tree sessions (3 mod 4)."""
import random
from simlab import session
from simlab.profiles.chainprof import ChainProfile
from simlab.profiles.evoprof import EvoProfile, W_C09, W_C10
from simlab.profiles.treeprof import TreeProfile

ID = "C06"
_P = {"algebra": ChainProfile("C06"), "real": EvoProfile("C06", dict(W_C09, truncate=0.8, add=0.8, apply=0.8)), "imag": EvoProfile("C06", dict(W_C10, truncate=0.5)),
      "tree": TreeProfile("C06")}
_ORDER = ["algebra", "real", "imag", "tree"]


def generate_and_run(seed, index, tier):
    fam = _ORDER[index % 4]
    prof = _P[fam]
    rnd = random.Random(seed)
    header = prof.gen_header(rnd, tier)
    header["tier"] = tier
    header["family"] = fam
    return session._run(prof, header, None, rnd, prof.nsteps(rnd, tier), tier)


def replay(plan):
    return session.replay(_P[plan["header"].get("family", "algebra")], plan)
