from simlab.profiles.treeprof import make_module_api
ID = "C02"
generate_and_run, replay = make_module_api("C02")
