"""C18 — numerical kernels meet their contracts.

Steps are single kernel invocations on generated inputs; the simulation dimensions are the SimLAPACK faults (first
SVD driver / tridiagonal eigensolver fail at a scheduled call so that the library's own fallback branches execute -
unreachable by inputs), the position of the global RNG stream (basis completion draws from it) and the block-size knob.
"""
import numpy as np
import scipy.linalg

from simlab import session
from simlab.chain import V
from simlab.core import HarnessError
from simlab.seams.lapack import SimLapack

from renormalizer.lib.krylov.krylov import expm_krylov
from renormalizer.mps import svd_qn as sq

ID = "C18"


class Entry:
    __slots__ = ("kind", "obj", "shadow", "tainted")

    def __init__(self):
        self.kind, self.obj, self.shadow, self.tainted = "none", None, np.zeros(1), False


class World:
    def __init__(self, header, stats, scratch=None):
        self.header, self.stats = header, stats
        self.h = {}
        self.step_no = -1
        self.created, self.changed = set(), set()
        self.lapack = SimLapack()
        self.fault_counts = self.lapack.fired

    def execute(self, s):
        self.step_no += 1
        self.cur_op = s["op"]
        np.random.seed(s.get("rngseed", 0) % (2 ** 32))
        self.lapack.arm_svd(None)
        self.lapack.arm_tri(None)
        st = OPS[s["op"]](self, s)
        self.stats.ops[s["op"] if st != "skipped" else "skipped"] += 1
        return st


OPS = {}


def op(name):
    def deco(f):
        OPS[name] = f
        return f
    return deco


def hermitian(g, n, kind, cplx):
    if kind == "diagonal":
        return np.diag(g.normal(size=n)).astype(complex if cplx else float)
    q = g.normal(size=(n, n)) + (1j * g.normal(size=(n, n)) if cplx else 0)
    q, _ = np.linalg.qr(q)
    if kind == "random":
        w = g.normal(size=n)
    elif kind == "degenerate":
        w = g.choice(g.normal(size=max(1, n // 3)), size=n)
    elif kind == "rank_deficient":
        w = g.normal(size=n)
        w[g.random(n) < 0.6] = 0.0
    elif kind == "clustered":
        w = g.choice([-1.0, 1.0], size=n) + 1e-6 * g.normal(size=n)
    elif kind == "zero":
        w = np.zeros(n)
    else:
        raise HarnessError(kind)
    a = (q * w) @ q.conj().T
    return (a + a.conj().T) / 2, q


@op("krylov")
def op_krylov(w, s):
    g = np.random.default_rng(s["seed"])
    n = s["n"]
    cplx = s["complex"]
    res = hermitian(g, n, s["spectrum"], cplx)
    a, q = res if isinstance(res, tuple) else (res, np.eye(n))
    if s["start"] == "random":
        v = g.normal(size=n) + (1j * g.normal(size=n) if cplx or s["dtkind"] != "real" else 0)
    elif s["start"] == "eigvec":
        v = q[:, g.integers(n)].copy()
    else:  # small invariant subspace
        k = min(n, s.get("subdim", 2))
        cols = g.choice(n, size=k, replace=False)
        v = q[:, cols] @ g.normal(size=k)
    if s["dtkind"] != "real":
        v = v.astype(complex)
    v = v * s.get("vscale", 1.0)
    nrm = float(np.linalg.norm(a, 2))
    x = s["x"]
    mag = x / nrm if nrm > 1e-12 else x
    dt = {"real": mag * s["sign"], "imag": 1j * mag * s["sign"]}[s["dtkind"]]
    ref = scipy.linalg.expm(dt * a) @ v
    calls = [0]

    def afunc(y):
        calls[0] += 1
        return a @ y

    if s.get("fail_tri"):
        w.lapack.arm_tri(s["fail_tri"])
    try:
        got, j = expm_krylov(afunc, dt, v.copy(), block_size=s["block"]) if s["block"] else expm_krylov(afunc, dt, v.copy())
    except Exception as ex:
        raise V({"C18"}, "C18.krylov.raised", f"expm_krylov n={n} spectrum={s['spectrum']} start={s['start']} block={s['block']} dt={dt}: {type(ex).__name__}: {ex}",
                sig=f"C18.krylov.raised:{type(ex).__name__}")
    got = np.asarray(got)
    sc = max(float(np.linalg.norm(ref)), float(np.linalg.norm(v)))
    err = float(np.linalg.norm(got - ref))
    tol = 2e-6
    w.stats.ratio("C18.krylov", err, tol * sc)
    if err > tol * sc:
        raise V({"C18"}, "C18.krylov", f"expm_krylov n={n} spectrum={s['spectrum']} start={s['start']} block={s['block']} x={x} dt={dt} "
                                       f"fail_tri={s.get('fail_tri')}: |got-expm|={err:.3e} > {tol:g}*{sc:.3e} (Lanczos vectors {j})")
    if not (1 <= j <= n):
        raise V({"C18"}, "C18.krylov.count", f"expm_krylov reports {j} Lanczos vectors for dimension {n}")
    bs = s["block"] or 50
    if j > bs:
        w.stats.probes["krylov_buffer_growth"] += 1
    if j == n:
        w.stats.probes["krylov_full_space_exit"] += 1
    elif s["start"] != "random" or s["spectrum"] in ("degenerate", "rank_deficient", "clustered", "zero", "diagonal"):
        w.stats.probes["krylov_early_exit_structured"] += 1
    else:
        w.stats.probes["krylov_convergence_exit"] += 1
    return "done"


def labels(g, n, qn_size, pattern, lo=-1, hi=2):
    q = g.integers(lo, hi + 1, size=(n, qn_size))
    if pattern == "single":
        q[:] = q[0]
    elif pattern == "sorted":
        q = q[np.lexsort(q.T[::-1])]
    return q


def iso_dev(m):
    if m.shape[1] == 0:
        return 0.0
    g = m.conj().T @ m
    return float(np.abs(g - np.eye(g.shape[0])).max())


@op("svdqn")
def op_svdqn(w, s):
    g = np.random.default_rng(s["seed"])
    nl, nr, qs = s["nl"], s["nr"], s["qn_size"]
    ql = labels(g, nl, qs, s["lpat"])
    qr = labels(g, nr, qs, s["rpat"])
    qntot = np.array(s["qntot"][:qs])
    if s.get("one_sided"):
        ql[g.integers(nl)] = 7  # a sector present on one side only
    a = g.normal(size=(nl, nr)) + (1j * g.normal(size=(nl, nr)) if s["complex"] else 0)
    if s.get("lowrank"):
        a = (a[:, :1] @ a[:1, :])
    mask = np.all(ql[:, None, :] + qr[None, :, :] == qntot.reshape(1, 1, -1), axis=-1)
    if s.get("premask"):
        a = a * mask
    allowed = a * mask
    shape3 = s.get("split")
    if shape3 and nl % shape3 == 0:
        coef = a.reshape(nl // shape3, shape3, nr)
        qbl = ql.reshape(nl // shape3, shape3, qs)
    else:
        coef, qbl = a, ql
    QR = s["mode"] == "qr"
    if s.get("fail_svd"):
        w.lapack.arm_svd(s["fail_svd"])
    try:
        out = sq.svd_qn(coef.copy(), qbl, qr, qntot, QR=QR, system=s["system"], full_matrices=s["full"], opt_full_matrices=s["opt"])
    except ValueError as ex:
        if "Invalid quantum number" in str(ex) and not mask.any():
            w.stats.probes["svdqn_invalid_qn_refused"] += 1
            return "done"
        if "Invalid quantum number" in str(ex):
            # some label pairs are compatible but every compatible sector is empty on one side: cannot happen if mask.any()
            raise V({"C18"}, "C18.svdqn.refused", f"svd_qn refused an input that has symmetry-allowed entries: {ex}")
        raise
    except Exception as ex:
        raise V({"C18"}, "C18.svdqn.raised", f"svd_qn mode={s['mode']} full={s['full']} opt={s['opt']} system={s['system']} fail_svd={s.get('fail_svd')}: {type(ex).__name__}: {ex}",
                sig=f"C18.svdqn.raised:{type(ex).__name__}")
    if QR:
        u, nql, v, nqr = out
        su = None
    else:
        u, su, nql, v, sv, nqr = out
    u, v = np.asarray(u), np.asarray(v)
    nql, nqr = np.asarray(nql).reshape(-1, qs), np.asarray(nqr).reshape(-1, qs)
    what = f"svd_qn mode={s['mode']} full={s['full']} opt={s['opt']} system={s['system']} shape=({nl},{nr}) fail_svd={s.get('fail_svd')}"
    tol = 1e-10
    # orthonormal columns
    if not QR or s["system"] == "L":
        d = iso_dev(u)
        w.stats.ratio("C18.svdqn.ortho", d, tol)
        if d > tol:
            raise V({"C18"}, "C18.svdqn.orthonormal", f"{what}: U columns not orthonormal (dev {d:.2e})")
    if not QR or s["system"] == "R":
        d = iso_dev(v)
        w.stats.ratio("C18.svdqn.ortho", d, tol)
        if d > tol:
            raise V({"C18"}, "C18.svdqn.orthonormal", f"{what}: V columns not orthonormal (dev {d:.2e})")
    # number of paired ("non-zero part") columns: they come first in U and V, in the same sector order
    K = 0
    for lab in {tuple(t) for t in ql.tolist()}:
        cl = int(np.sum(np.all(ql == np.array(lab), axis=1)))
        cr = int(np.sum(np.all(qr == qntot - np.array(lab), axis=1)))
        if cr:
            K += min(cl, cr)
    if u.shape[1] < K or v.shape[1] < K:
        raise V({"C18"}, "C18.svdqn.shape", f"{what}: expected at least {K} paired columns, got U {u.shape} V {v.shape}")
    if not s["full"] and (u.shape[1] != K or v.shape[1] != K):
        raise V({"C18"}, "C18.svdqn.shape", f"{what}: economic mode must return exactly {K} columns, got U {u.shape} V {v.shape}")
    if QR:
        # QR / RQ: the two factors have the same number of columns sector by sector (also in full mode, where the
        # triangular factor keeps all its columns), and their complete product restores the input
        if u.shape[1] != v.shape[1]:
            raise V({"C18"}, "C18.svdqn.shape", f"{what}: QR factors have {u.shape[1]} and {v.shape[1]} columns")
        prod = u @ v.T
    else:
        if len(su) != u.shape[1] or len(sv) != v.shape[1]:
            raise V({"C18"}, "C18.svdqn.shape", f"{what}: {len(su)}/{len(sv)} singular values for {u.shape[1]}/{v.shape[1]} columns")
        if np.any(su[:K] != sv[:K]) or np.any(su[K:] != 0) or np.any(sv[K:] != 0):
            raise V({"C18"}, "C18.svdqn.values", f"{what}: singular values of U and V sides disagree or completion columns carry non-zero values")
        prod = (u[:, :K] * su[:K]) @ v[:, :K].T
    sc = max(float(np.linalg.norm(allowed)), 1e-300)
    err = float(np.linalg.norm(prod - allowed))
    w.stats.ratio("C18.svdqn.restore", err, 1e-10 * sc)
    if err > 1e-10 * sc:
        raise V({"C18"}, "C18.svdqn.restore", f"{what}: factors do not restore the symmetry-allowed part of the input: err {err:.3e} (scale {sc:.3e})")
    # labels
    for mat, lab, q in ((u, nql, ql), (v, nqr, qr)):
        if lab.shape[0] != mat.shape[1]:
            raise V({"C18"}, "C18.svdqn.labels", f"{what}: {mat.shape[1]} columns but {lab.shape[0]} labels")
        for c in range(mat.shape[1]):
            rows = np.all(q == lab[c], axis=1)
            leak = float(np.abs(mat[~rows, c]).max()) if (~rows).any() else 0.0
            if leak > 1e-12:
                raise V({"C18", "C06"}, "C18.svdqn.labels", f"{what}: column {c} labelled {lab[c].tolist()} has weight {leak:.2e} on rows with other labels")
    if not QR and not s["full"]:
        if np.any(nql + nqr != qntot.reshape(1, -1)):
            raise V({"C18", "C06"}, "C18.svdqn.labels", f"{what}: left+right labels of a singular pair do not add up to the total")
        if np.any(np.diff(su) > 1e-12 * max(float(su.max(initial=0)), 1e-300)):
            raise V({"C18", "C05"}, "C18.svdqn.sorted", f"{what}: economic singular values not sorted: {su.tolist()}")
        ref = scipy.linalg.svdvals(allowed)
        k = min(len(ref), len(su))
        d = float(np.abs(np.sort(su)[::-1][:k] - ref[:k]).max()) if k else 0.0
        if d > 1e-10 * max(sc, 1e-300) or (len(su) > k and float(np.abs(np.sort(su)[::-1][k:]).max()) > 1e-10 * sc):
            raise V({"C18"}, "C18.svdqn.values", f"{what}: singular values differ from numpy SVD of the masked matrix by {d:.3e}")
    if s.get("fail_svd") and w.lapack.fired.get("svd_gesvd_fallback_taken"):
        w.stats.probes["svd_fallback_branch_verified"] += 1
    return "done"


@op("eighqn")
def op_eighqn(w, s):
    g = np.random.default_rng(s["seed"])
    n, qs = s["n"], s["qn_size"]
    q = labels(g, n, qs, s["lpat"], 0, 2)
    comp = labels(g, s["ncomp"], qs, "random", 0, 2)
    qntot = np.array(s["qntot"][:qs])
    x = g.normal(size=(n, s["rank"])) + (1j * g.normal(size=(n, s["rank"])) if s["complex"] else 0)
    same = np.all(q[:, None, :] == q[None, :, :], axis=-1)
    dm = (x @ x.conj().T) * same  # block diagonal density matrix
    system = s["system"]
    qbl, qbr = (q, comp) if system == "L" else (comp, q)
    try:
        u, sv, nq = sq.eigh_qn(dm.copy(), qbl, qbr, qntot, system)
    except ValueError as ex:
        w.stats.probes["eighqn_refused"] += 1
        return "done"
    except Exception as ex:
        raise V({"C18"}, "C18.eighqn.raised", f"eigh_qn system={system}: {type(ex).__name__}: {ex}", sig=f"C18.eighqn.raised:{type(ex).__name__}")
    u = np.asarray(u)
    nq = np.asarray(nq).reshape(-1, qs)
    has_partner = np.array([np.any(np.all(comp == qntot - q[i], axis=1)) for i in range(n)])
    allowed = dm * np.outer(has_partner, has_partner)
    d = iso_dev(u)
    if d > 1e-10:
        raise V({"C18"}, "C18.eighqn.orthonormal", f"eigh_qn: eigenvectors not orthonormal (dev {d:.2e})")
    rec = (u * sv ** 2) @ u.conj().T
    sc = max(float(np.linalg.norm(allowed)), 1e-300)
    err = float(np.linalg.norm(rec - allowed))
    w.stats.ratio("C18.eighqn.restore", err, 1e-9 * sc)
    if err > 1e-9 * sc:
        raise V({"C18"}, "C18.eighqn.restore", f"eigh_qn system={system}: U S^2 U+ differs from the allowed diagonal blocks by {err:.3e} (scale {sc:.3e})")
    for c in range(u.shape[1]):
        rows = np.all(q == nq[c], axis=1)
        leak = float(np.abs(u[~rows, c]).max()) if (~rows).any() else 0.0
        if leak > 1e-12:
            raise V({"C18", "C06"}, "C18.eighqn.labels", f"eigh_qn: column {c} labelled {nq[c].tolist()} leaks {leak:.2e}")
    return "done"


class C18Profile(session.Profile):
    pid = "C18"
    world_cls = World

    def gen_header(self, rnd, tier):
        return {"kernel_mix": rnd.choice(["both", "krylov", "svd"])}

    def nsteps(self, rnd, tier):
        return rnd.randint(10, 30)

    def weights(self, header):
        return {"both": {"krylov": 1, "svdqn": 1.2, "eighqn": 0.4}, "krylov": {"krylov": 1}, "svd": {"svdqn": 1, "eighqn": 0.4}}[header["kernel_mix"]]

    def install_seams(self, world, header):
        world.lapack.install()
        return [world.lapack]

    def propose(self, w, rnd, weights):
        names = list(weights)
        name = rnd.choices(names, [weights[n] for n in names])[0]
        seed = rnd.randrange(2 ** 31)
        if name == "krylov":
            n = rnd.choice([1, 2, 3, 4, 5, 6, 8, 12, 20, 30, 45, 60])
            s = {"op": "krylov", "seed": seed, "n": n, "complex": rnd.random() < 0.5,
                 "spectrum": rnd.choice(["random", "random", "degenerate", "rank_deficient", "diagonal", "clustered", "zero"]),
                 "start": rnd.choice(["random", "random", "eigvec", "subspace"]), "subdim": rnd.randint(1, 4),
                 "dtkind": rnd.choice(["real", "imag", "imag"]), "sign": rnd.choice([1, -1]),
                 "x": round(10 ** rnd.uniform(-1.7, 0.7), 4), "block": rnd.choice([None, 2, 3, 4, 5, 7, 10, 20, 50]),
                 "vscale": rnd.choice([1.0, 1.0, 1e-3, 30.0])}
            if rnd.random() < 0.3:
                s["fail_tri"] = rnd.randint(1, 4)
            return dict(s, rngseed=rnd.randrange(2 ** 31))
        if name == "svdqn":
            qs = rnd.choice([1, 1, 2])
            s = {"op": "svdqn", "seed": seed, "nl": rnd.choice([1, 2, 3, 4, 6, 8, 12, 20]), "nr": rnd.choice([1, 2, 3, 4, 6, 8, 12, 20]), "qn_size": qs,
                 "qntot": [rnd.randint(-1, 2), rnd.randint(-1, 2)], "lpat": rnd.choice(["random", "random", "single", "sorted"]),
                 "rpat": rnd.choice(["random", "random", "single", "sorted"]), "complex": rnd.random() < 0.4,
                 "mode": rnd.choice(["svd", "svd", "qr"]), "system": rnd.choice("LR"), "full": rnd.random() < 0.5, "opt": rnd.random() < 0.6,
                 "premask": rnd.random() < 0.5, "one_sided": rnd.random() < 0.2, "lowrank": rnd.random() < 0.15,
                 "split": rnd.choice([None, None, 2, 3])}
            if rnd.random() < 0.35 and s["mode"] == "svd":
                s["fail_svd"] = rnd.randint(1, 3)
            return dict(s, rngseed=rnd.randrange(2 ** 31))
        qs = rnd.choice([1, 2])
        return {"op": "eighqn", "seed": seed, "n": rnd.choice([1, 2, 3, 5, 8, 12]), "ncomp": rnd.randint(1, 6), "qn_size": qs, "rank": rnd.randint(1, 4),
                "qntot": [rnd.randint(0, 3), rnd.randint(0, 3)], "lpat": rnd.choice(["random", "single", "sorted"]), "complex": rnd.random() < 0.4,
                "system": rnd.choice("LR"), "rngseed": rnd.randrange(2 ** 31)}

    def nontrivial_key(self, w, s):
        if s["op"] == "krylov":
            if s["n"] < 2:
                return None
            return f"k:{s['n']}:{s['spectrum']}:{s['start']}:{s['dtkind']}:{s['block']}:{bool(s.get('fail_tri'))}:{s['complex']}"
        if s["op"] == "svdqn":
            if s["nl"] * s["nr"] < 4:
                return None
            return f"s:{s['nl']}x{s['nr']}:{s['qn_size']}:{s['mode']}:{s['system']}:{s['full']}:{s['opt']}:{s['lpat']}:{s['rpat']}:{bool(s.get('fail_svd'))}:{s['complex']}"
        return f"e:{s['n']}:{s['qn_size']}:{s['system']}:{s['lpat']}"


PROFILE = C18Profile()


def generate_and_run(seed, index, tier):
    return session.generate_and_run(PROFILE, seed, index, tier)


def replay(plan):
    return session.replay(PROFILE, plan)
