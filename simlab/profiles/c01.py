from simlab.profiles.chainprof import make_module_api
ID = "C01"
generate_and_run, replay = make_module_api("C01")
