from simlab.profiles.gsprof import make_module_api, W_C08
ID = "C08"
generate_and_run, replay = make_module_api("C08", W_C08)
