"""C08: DMRG optimisation on the chain world (runs 0,1,2 mod 4) and two-site tree optimisation on the tree world (3 mod 4)."""
import random
from simlab import session
from simlab.profiles.gsprof import GsProfile, W_C08
from simlab.profiles.treeprof import TreeProfile

ID = "C08"
_P = {"chain": GsProfile("C08", W_C08), "tree": TreeProfile("C08")}


def generate_and_run(seed, index, tier):
    fam = "tree" if index % 4 == 3 else "chain"
    prof = _P[fam]
    rnd = random.Random(seed)
    header = prof.gen_header(rnd, tier)
    header["tier"] = tier
    header["family"] = fam
    return session._run(prof, header, None, rnd, prof.nsteps(rnd, tier), tier)


def replay(plan):
    return session.replay(_P[plan["header"].get("family", "chain")], plan)
