"""Profiles on the chain world with evolution operations (C09 real time, C10 imaginary time / thermal)."""
from simlab import session, chain
from simlab import chain_evolve  # noqa: F401  (registers ops)
from simlab import chain_thermal  # noqa: F401  (registers ops)

W_C09 = {"mps_random": 2.0, "mps_product": 1.2, "mpo_ham": 1.2, "expand": 2.0, "evolve": 8.0, "ensure": 0.6, "move_qnidx": 0.6, "canonicalise": 0.4,
         "unary": 0.6, "mpdm_from_mps": 0.5, "scale": 0.4, "drop": 0.2, "observe": 0.3, "regauge": 1.2, "evolve_ovlp": 1.5}
W_C10 = dict(W_C09, evolve=1.0, evolve_imag=6.0, mpdm_from_mps=1.0, max_entangled=1.5, thermal_job=2.5, exact_prop=0.8, evolve_exact=1.5)


class EvoProfile(session.Profile):
    world_cls = chain.World

    def __init__(self, pid, weights):
        self.pid = pid
        self.w = weights

    def gen_header(self, rnd, tier):
        h = chain.gen_header(rnd, nmodels=(1, 1), maxdim=rnd.choice([8, 16, 36]), nmax=rnd.choice([2, 3, 4]),
                             flavours=["spin", "spinqn", "eph", "eph", "mixed", "two"])
        if self.pid == "C10" and rnd.random() < 0.45:
            h["models"] = [chain_thermal.gen_holstein(rnd)]
        wts = dict(self.w)
        for k in list(wts):
            if k not in ("mps_random", "mpo_ham", "evolve", "evolve_imag", "expand", "max_entangled", "thermal_job") and rnd.random() < 0.2:
                wts[k] = 0.0
        h["weights"] = wts
        return h

    def nsteps(self, rnd, tier):
        return rnd.randint(6, 16)

    def weights(self, header):
        return header["weights"]

    def propose(self, world, rnd, weights):
        if not world.handles("mps"):
            s = chain.PROPOSERS["mps_random"](world, rnd)
        elif not world.handles("mpo", pred=lambda e: e.meta.get("hermitian")):
            s = chain.PROPOSERS["mpo_ham"](world, rnd)
        else:
            return chain.propose(world, rnd, weights)
        if s is not None:
            s["rngseed"] = rnd.randrange(2 ** 31)
        return s

    def nontrivial_key(self, world, step):
        if step["op"] not in ("evolve",):
            return None
        le = getattr(world, "last_evolve", None)
        if not le:
            return None
        out = step.get("out")
        if out not in world.h or max(world.h[out].obj.bond_dims) <= 1:
            return None
        import math
        return f"{le['key']}:{'suff' if le['sufficient'] else 'trunc'}:{int(math.log10(max(le['x'], 1e-9)) * 2)}:{'td' if step.get('td') else ''}:{(step.get('pair') or {}).get('kind', '')}:{tuple(world.h[out].obj.bond_dims)}"


def make_module_api(pid, weights):
    prof = EvoProfile(pid, weights)

    def generate_and_run(seed, index, tier):
        return session.generate_and_run(prof, seed, index, tier)

    def replay(plan):
        return session.replay(prof, plan)
    return generate_and_run, replay
