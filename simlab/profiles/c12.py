from simlab.profiles.treeprof import make_module_api
ID = "C12"
generate_and_run, replay = make_module_api("C12")
