from simlab.profiles.treeprof import make_module_api
ID = "C11"
generate_and_run, replay = make_module_api("C11")
