from simlab.profiles.evoprof import make_module_api, W_C09
ID = "C09"
generate_and_run, replay = make_module_api("C09", W_C09)
