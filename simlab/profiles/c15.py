"""C15 — symbolic operator algebra is a faithful homomorphism.

Expression *programs* over a pool of Op / OpSum objects (with aliasing and the one in-place operation `+=`); the
dense matrix of every pool member is re-evaluated after every step (so `+=` through an alias, or any accidental
sharing of term lists, is visible) and every result is compared with the matrix expression of the operand shadows.
No fault kind applies (pure in-memory algebra) - stated in the evidence.
"""
import random

import numpy as np

from simlab import session
from simlab.core import Violation, HarnessError
from simlab.chain import V
from simlab.ref import dense
from simlab.gen import models as gm

from renormalizer.model import Op, OpSum

ID = "C15"
TOL = 1e-10


class Entry:
    __slots__ = ("kind", "obj", "shadow", "tainted", "meta", "scale")

    def __init__(self, obj, shadow, scale=0.0):
        self.obj, self.shadow = obj, shadow
        self.scale = max(scale, float(np.linalg.norm(shadow)))
        self.kind = "opsum" if isinstance(obj, OpSum) else "op"
        self.tainted = False
        self.meta = {}


class World:
    def __init__(self, header, stats, scratch=None):
        self.header, self.stats = header, stats
        self.spec = header["model"]
        self.model = gm.build_model(dict(self.spec, ham=[]))
        self.h = {}
        self.nh = 0
        self.step_no = -1
        self.created, self.changed = set(), set()
        self.d = dense.dim(self.model)

    def new_handle(self):
        self.nh += 1
        return f"x{self.nh}"

    def dense_of(self, e):
        return self.mat(e.obj)

    def mat(self, obj):
        """Denoted matrix of an expression, via local matrices only.  None if the model does not accept it."""
        terms = list(obj) if isinstance(obj, OpSum) else [obj]
        try:
            return dense.dense_op(self.model, terms)
        except (ValueError, KeyError, AssertionError, NotImplementedError) as ex:
            return None

    def size(self, obj):
        """sum_k |c_k| * ||unit term k||_F : the magnitude of the summands (rounding errors scale with it, not with the sum)."""
        terms = list(obj) if isinstance(obj, OpSum) else [obj]
        tot = 0.0
        for t in terms:
            try:
                u = dense.kron_all(dense.term_site_mats(self.model, t))
                tot += abs(t.factor) * float(np.linalg.norm(u))
            except Exception:
                pass
        return tot

    def sho_dofs(self, obj):
        terms = list(obj) if isinstance(obj, OpSum) else [obj]
        out = set()
        for t in terms:
            for d in t.dofs:
                b = self.model.dof_to_basis.get(d)
                # sites whose basis defines compound symbols by convention rather than as matrix products:
                # truncated oscillators (x x := x^2 exactly) and multi-electron sites (a_i a+_j := |j><i|)
                if b is not None and (b.is_phonon or b.multi_dof):
                    out.add(self.model.dof_to_siteidx[d])
        return out

    def put(self, h, obj, ref, inv, what, scale=0.0):
        got = self.mat(obj)
        if not isinstance(obj, (Op, OpSum)):
            raise V({"C15"}, "C15.type", f"{what}: result has type {type(obj).__name__}")
        if ref is None or got is None:
            # not accepted by the model (e.g. unsupported compound symbol): nothing is claimed
            self.stats.probes["not_accepted"] += 1
            return
        size = self.size(obj)
        sc = max(float(np.linalg.norm(ref)), float(np.linalg.norm(got)), scale, size, 1e-300)
        err = float(np.linalg.norm(got - ref))
        self.stats.ratio(inv, err, TOL * sc)
        if err > TOL * sc:
            raise V({"C15"}, inv, f"{what}: |dense(result) - expression of operand matrices| = {err:.3e} (scale {sc:.3e}); result={str(obj)[:300]}")
        self.h[h] = Entry(obj, ref, sc)
        self.created.add(h)

    def execute(self, s):
        self.step_no += 1
        self.created, self.changed = set(), set()
        self.cur_op = s["op"]
        fn = OPS[s["op"]]
        st = fn(self, s)
        if st == "skipped":
            self.stats.ops["skipped"] += 1
            return st
        self.stats.ops[s["op"] + ":" + str(s.get("which", ""))] += 1
        # every pool member must still denote its shadow (aliasing / in-place effects)
        for k, e in self.h.items():
            if k in self.changed or k in self.created:
                continue
            got = self.mat(e.obj)
            if got is None:
                raise V({"C15"}, "C15.bystander_changed", f"{k} no longer evaluates after {s['op']}")
            err = float(np.linalg.norm(got - e.shadow))
            if err > TOL * max(e.scale, 1e-300):
                raise V({"C15"}, "C15.bystander_changed", f"expression {k} changed its value by {err:.3e} during step {self.step_no} ({s['op']} {s.get('which', '')})")
        return st


OPS = {}


def op(name):
    def deco(f):
        OPS[name] = f
        return f
    return deco


def scalar(s):
    kind, v = s["skind"], s["sval"]
    if kind == "int":
        return int(v[0])
    if kind == "float":
        return float(v[0])
    if kind == "complex":
        return complex(v[0], v[1])
    if kind == "np.float64":
        return np.float64(v[0])
    if kind == "np.int64":
        return np.int64(int(v[0]))
    if kind == "np.complex128":
        return np.complex128(complex(v[0], v[1]))
    raise HarnessError(kind)


@op("new")
def op_new(w, s):
    o = gm.build_op(s["term"])
    m = w.mat(o)
    if m is None:
        return "skipped"
    w.h[s["out"]] = Entry(o, m, w.size(o))
    w.created.add(s["out"])
    return "done"


@op("newsum")
def op_newsum(w, s):
    items = [w.h[x].obj for x in s["items"] if x in w.h and w.h[x].kind == "op"]
    if not items:
        return "skipped"
    o = OpSum(items)
    ref = sum(w.h[x].shadow for x in s["items"] if x in w.h and w.h[x].kind == "op")
    w.put(s["out"], o, ref, "C15.opsum_ctor", "OpSum([...])")
    return "done"


@op("binary")
def op_binary(w, s):
    a, b = s["a"], s["b"]
    if a not in w.h or b not in w.h:
        return "skipped"
    ea, eb = w.h[a], w.h[b]
    which = s["which"]
    x, y = ea.obj, eb.obj
    if which in ("mul", "rmul_list") and (w.sho_dofs(x) & w.sho_dofs(y)):
        # products of oscillator symbols on one site are defined "up to the documented truncation at the highest level" (C16)
        w.stats.probes["same_site_oscillator_product_skipped"] += 1
        return "skipped"
    if s.get("b_as_list") and isinstance(y, OpSum):
        y = list(y)  # plain python list operand
    try:
        if which == "add":
            r, ref = x + y, ea.shadow + eb.shadow
        elif which == "sub":
            r, ref = x - eb.obj, ea.shadow - eb.shadow
        elif which == "mul":
            r, ref = x * y, ea.shadow @ eb.shadow
        elif which == "rmul_list":
            if not isinstance(x, OpSum) or not isinstance(eb.obj, Op):
                return "skipped"
            r, ref = list(x) * eb.obj, ea.shadow @ eb.shadow  # list.__mul__ fails -> Op.__rmul__
        else:
            raise HarnessError(which)
    except TypeError as ex:
        w.stats.probes["typeerror:" + which] += 1
        return "skipped"
    sc = float(np.linalg.norm(ea.shadow) * np.linalg.norm(eb.shadow)) if which in ("mul", "rmul_list") else float(np.linalg.norm(ea.shadow) + np.linalg.norm(eb.shadow))
    w.put(s["out"], r, ref, f"C15.{which}", f"{ea.kind} {which} {eb.kind}", scale=sc)
    return "done"


@op("scalar")
def op_scalar(w, s):
    a = s["a"]
    if a not in w.h:
        return "skipped"
    e = w.h[a]
    c = scalar(s)
    which = s["which"]
    try:
        if which == "mul":
            r, ref = e.obj * c, e.shadow * complex(c)
        elif which == "rmul":
            r, ref = c * e.obj, e.shadow * complex(c)
        elif which == "div":
            if e.kind != "opsum" or c == 0:
                return "skipped"
            r, ref = e.obj / c, e.shadow / complex(c)
        elif which == "neg":
            r, ref = -e.obj, -e.shadow
        elif which == "add0":
            if e.kind != "op":
                return "skipped"
            z = {"int": 0, "float": 0.0}.get(s["skind"], np.array(0))
            r, ref = (e.obj + z) if s.get("left") else (z + e.obj), e.shadow
        else:
            raise HarnessError(which)
    except TypeError:
        w.stats.probes["typeerror:scalar_" + which] += 1
        return "skipped"
    w.put(s["out"], r, ref, f"C15.scalar_{which}", f"{e.kind} {which} {s['skind']}")
    return "done"


@op("product")
def op_product(w, s):
    items = [x for x in s["items"] if x in w.h]
    if not items:
        return "skipped"
    es = [w.h[x] for x in items]
    seen = set()
    for e in es:
        d = w.sho_dofs(e.obj)
        if d & seen:
            w.stats.probes["same_site_oscillator_product_skipped"] += 1
            return "skipped"
        seen |= d
    ref = np.eye(w.d, dtype=complex)
    for e in es:
        ref = ref @ e.shadow
    if all(e.kind == "op" for e in es):
        r = Op.product([e.obj for e in es])
    else:
        r = OpSum.product([e.obj for e in es])
    w.put(s["out"], r, ref, "C15.product", "product([...])", scale=float(np.prod([np.linalg.norm(e.shadow) for e in es])))
    return "done"


@op("simplify")
def op_simplify(w, s):
    a = s["a"]
    if a not in w.h or w.h[a].kind != "opsum":
        return "skipped"
    e = w.h[a]
    atol = s["atol"]
    try:
        r = e.obj.simplify(atol=atol) if atol else e.obj.simplify()
    except Exception as ex:
        raise V({"C15"}, "C15.simplify.raised", f"simplify(atol={atol}) of {str(e.obj)[:200]}: {type(ex).__name__}: {ex}",
                sig=f"C15.simplify.raised:{type(ex).__name__}")
    got = w.mat(r)
    if got is None:
        raise V({"C15"}, "C15.simplify.unacceptable", "simplified expression is no longer accepted by the model")
    # every dropped term has |factor| <= atol: bound the change by atol * sum of spectral norms of the unit terms
    # (terms are merged FIRST: the bound counts every distinct product once, however often it is repeated in the input)
    bound = 0.0
    distinct = []
    for t in e.obj:
        t1 = t.squeeze_identity()
        if any(t1.same_term(d) for d in distinct):
            continue
        distinct.append(t1)
        u = w.mat(Op(t1.symbol, t1.dofs, 1.0, t1.qn_list))
        bound += atol * float(np.linalg.norm(u, 2))
    err = float(np.linalg.norm(got - e.shadow, 2))
    allowed = bound + TOL * max(float(np.linalg.norm(e.shadow)), sum(abs(t.factor) for t in e.obj) * 2 ** 0.5, 1e-300)
    w.stats.ratio("C15.simplify", err, allowed)
    if err > allowed:
        raise V({"C15"}, "C15.simplify", f"simplify(atol={atol}) changed the operator by {err:.3e} > {allowed:.3e}")
    # merged: no two remaining terms are the same term; no identity factors except a pure identity
    for i, t in enumerate(r):
        for u in list(r)[i + 1:]:
            if t.same_term(u):
                raise V({"C15"}, "C15.simplify.not_merged", f"simplify left two identical terms {t} / {u}")
        if not t.is_identity and "I" in t.split_symbol:
            raise V({"C15"}, "C15.simplify.identity_left", f"simplify left an identity factor in {t}")
    w.h[s["out"]] = Entry(r, got, e.scale)
    w.created.add(s["out"])
    return "done"


@op("squeeze")
def op_squeeze(w, s):
    a = s["a"]
    if a not in w.h or w.h[a].kind != "op":
        return "skipped"
    e = w.h[a]
    try:
        r = e.obj.squeeze_identity()
    except Exception as ex:
        raise V({"C15"}, "C15.squeeze.raised", f"squeeze_identity of {e.obj}: {type(ex).__name__}: {ex}", sig=f"C15.squeeze.raised:{type(ex).__name__}")
    w.put(s["out"], r, e.shadow, "C15.squeeze", "squeeze_identity")
    return "done"


@op("copy")
def op_copy(w, s):
    a = s["a"]
    if a not in w.h or w.h[a].kind != "opsum":
        return "skipped"
    w.put(s["out"], w.h[a].obj.copy(), w.h[a].shadow, "C15.copy", "OpSum.copy")
    return "done"


@op("alias")
def op_alias(w, s):
    a = s["a"]
    if a not in w.h:
        return "skipped"
    e = Entry(w.h[a].obj, w.h[a].shadow, w.h[a].scale)
    e.meta["alias_of"] = a
    w.h[s["out"]] = e
    w.created.add(s["out"])
    return "done"


@op("iadd")
def op_iadd(w, s):
    a, b = s["a"], s["b"]
    if a not in w.h or b not in w.h or w.h[a].kind != "opsum":
        return "skipped"
    ea, eb = w.h[a], w.h[b]
    target = ea.obj
    add = eb.shadow.copy()
    x = target
    x += (list(eb.obj) if s.get("b_as_list") and eb.kind == "opsum" else eb.obj)
    if x is not target:
        raise V({"C15"}, "C15.iadd.identity", "+= returned a new object")
    # the target and every alias of the same object change; nothing else
    for k, e in w.h.items():
        if e.obj is target:
            e.shadow = e.shadow + add
            e.scale = e.scale + eb.scale
            w.changed.add(k)
    for k in list(w.changed):
        got = w.mat(w.h[k].obj)
        if got is None or float(np.linalg.norm(got - w.h[k].shadow)) > TOL * max(w.h[k].scale, 1e-300):
            raise V({"C15"}, "C15.iadd", f"after += the target {k} does not denote old + added")
    return "done"


@op("eqhash")
def op_eqhash(w, s):
    a, b = s["a"], s["b"]
    if a not in w.h or b not in w.h or w.h[a].kind != "op" or w.h[b].kind != "op":
        return "skipped"
    x, y = w.h[a].obj, w.h[b].obj
    eq = (x == y)
    if eq and hash(x) != hash(y):
        raise V({"C15"}, "C15.eq_hash", f"{x} == {y} but hashes differ")
    if eq and float(np.linalg.norm(w.h[a].shadow - w.h[b].shadow)) > 0:
        raise V({"C15"}, "C15.eq_value", f"{x} == {y} but they denote different matrices")
    z = Op(x.symbol, list(x.dofs), x.factor, [q.copy() for q in x.qn_list])
    if not (z == x) or hash(z) != hash(x) or len({x, z}) != 1:
        raise V({"C15"}, "C15.eq_reconstruct", f"structurally identical copy of {x} is not equal / hashes differently")
    return "done"


# ---------------------------------------------------------------------------------------------------- scheduler

SCALARS = ["int", "float", "complex", "np.float64", "np.int64", "np.complex128"]


class C15Profile(session.Profile):
    pid = "C15"
    world_cls = World

    def gen_header(self, rnd, tier):
        flavour = rnd.choice(["spin", "spin", "spinqn", "eph", "two", "mixed", "multi"])
        spec = gm.gen_sites(rnd, flavour=flavour, nmin=1, nmax=4, maxdim=40)
        return {"model": spec}

    def nsteps(self, rnd, tier):
        return rnd.randint(10, 45)

    def weights(self, header):
        return {"new": 5, "newsum": 1, "binary": 6, "scalar": 4, "product": 1.5, "simplify": 2.5, "squeeze": 1, "copy": 0.5,
                "alias": 0.7, "iadd": 1.5, "eqhash": 1}

    def propose(self, w, rnd, weights):
        spec = w.spec
        names = list(weights)
        if len(w.h) < 2:
            names = ["new"]
        for _ in range(30):
            name = rnd.choices(names, [weights[n] for n in names])[0] if len(names) > 1 else "new"
            hs = list(w.h)
            ops_only = [k for k in hs if w.h[k].kind == "op"]
            sums = [k for k in hs if w.h[k].kind == "opsum"]
            if name == "new":
                if rnd.random() < 0.2:
                    # identity factors / explicit identity
                    i = rnd.randrange(len(spec["sites"]))
                    d = gm.site_dofs(spec["sites"][i])[0]
                    t = {"sym": "I", "dofs": [list(d) if isinstance(d, tuple) else d], "factor": [round(rnd.uniform(-2, 2), 3), 0.0], "qn": [[0] * spec["qn_size"]]}
                    if rnd.random() < 0.5:
                        t2 = gm.gen_term(rnd, spec["sites"], spec["qn_size"], max_body=2)
                        t = {"sym": t2["sym"] + " I", "dofs": t2["dofs"] + t["dofs"], "factor": t2["factor"], "qn": t2["qn"] + t["qn"]}
                else:
                    t = gm.gen_term(rnd, spec["sites"], spec["qn_size"], max_body=3)
                    if rnd.random() < 0.3:
                        t["factor"] = [rnd.choice([1e-6, 1e-9, 1e-3]) * rnd.choice([1, -1]), 0.0]
                return {"op": "new", "term": t, "out": w.new_handle()}
            if name == "newsum" and ops_only:
                items = [rnd.choice(ops_only) for _ in range(rnd.randint(1, 4))]
                if rnd.random() < 0.3:
                    items += [items[0]] * rnd.randint(1, 5)      # the same term repeated several times
                    rnd.shuffle(items)
                return {"op": "newsum", "items": items, "out": w.new_handle()}
            if name == "binary" and len(hs) >= 1:
                which = rnd.choice(["add", "add", "sub", "mul", "mul", "rmul_list"])
                a, b = rnd.choice(hs), rnd.choice(hs)
                if which == "mul" and len(w.h[a].obj if w.h[a].kind == "opsum" else [1]) * len(w.h[b].obj if w.h[b].kind == "opsum" else [1]) > 60:
                    continue
                return {"op": "binary", "which": which, "a": a, "b": b, "b_as_list": rnd.random() < 0.2, "out": w.new_handle()}
            if name == "scalar" and hs:
                k = rnd.choice(SCALARS)
                v = [rnd.choice([-3, -1, 2, 5]) if "int" in k else round(rnd.uniform(-3, 3), 4), round(rnd.uniform(-2, 2), 4)]
                if v[0] == 0:
                    v[0] = 1
                return {"op": "scalar", "which": rnd.choice(["mul", "rmul", "div", "neg", "add0"]), "a": rnd.choice(hs), "skind": k, "sval": v,
                        "left": rnd.random() < 0.5, "out": w.new_handle()}
            if name == "product" and hs:
                items = [rnd.choice(hs) for _ in range(rnd.randint(1, 3))]
                sz = 1
                for x in items:
                    sz *= len(w.h[x].obj) if w.h[x].kind == "opsum" else 1
                if sz > 60:
                    continue
                return {"op": "product", "items": items, "out": w.new_handle()}
            if name == "simplify" and sums:
                a = rnd.choice(sums)
                atol = rnd.choice([0, 0, 1e-12, 1e-7, 1e-4, 1e-2])
                facs = [abs(t.factor) for t in w.h[a].obj if abs(t.factor) > 0]
                if facs and rnd.random() < 0.4:
                    # a tolerance just above single coefficients: repeated small terms add up to something that must be kept
                    atol = float(f"{rnd.choice(facs) * rnd.choice([1.2, 1.5, 2.5]):.4g}")
                return {"op": "simplify", "a": a, "atol": atol, "out": w.new_handle()}
            if name == "squeeze" and ops_only:
                return {"op": "squeeze", "a": rnd.choice(ops_only), "out": w.new_handle()}
            if name == "copy" and sums:
                return {"op": "copy", "a": rnd.choice(sums), "out": w.new_handle()}
            if name == "alias" and hs:
                return {"op": "alias", "a": rnd.choice(hs), "out": w.new_handle()}
            if name == "iadd" and sums:
                return {"op": "iadd", "a": rnd.choice(sums), "b": rnd.choice(hs), "b_as_list": rnd.random() < 0.3}
            if name == "eqhash" and len(ops_only) >= 1:
                return {"op": "eqhash", "a": rnd.choice(ops_only), "b": rnd.choice(ops_only)}
        return None

    def nontrivial_key(self, w, step):
        out = step.get("out") or step.get("a")
        if out not in w.h:
            return None
        e = w.h[out]
        n = len(e.obj) if e.kind == "opsum" else len(e.obj.split_symbol)
        if n < 2:
            return None
        return f"{step['op']}:{step.get('which', '')}:{step.get('skind', '')}:{e.kind}:{n}:{w.spec['flavour']}:{w.spec['qn_size']}"


PROFILE = C15Profile()


def generate_and_run(seed, index, tier):
    return session.generate_and_run(PROFILE, seed, index, tier)


def replay(plan):
    return session.replay(PROFILE, plan)
