"""Profiles on the chain world.  One engine, per-property swarm weights and property tag."""
import numpy as np

from simlab import session, chain
from simlab import chain_io  # noqa: F401  (registers the persistence ops)


BASE = {
    "mpo": 2.0, "mpo_identity": 0.3, "mps_random": 3.0, "mps_product": 0.8, "mpdm_from_mps": 0.6,
    "add": 3.0, "scale": 1.5, "unary": 1.5, "apply": 2.5,
    "canonicalise": 1.2, "ensure": 1.2, "move_qnidx": 1.5, "compress_lossless": 1.0, "normalize": 0.5,
    "truncate": 0.8, "observe": 2.0, "drop": 0.3, "alias_mutate": 0.0, "spill": 0.0, "swap": 0.0, "observe2": 0.3,
    "dump_load": 0.0, "spill_session": 0.0, "spill_gc": 0.0, "regauge": 0.8, "contract": 0.6, "mpo_shared": 0.5,
}

TWEAKS = {
    "C07": {"observe2": 9.0, "observe": 2.0, "truncate": 0.3, "add": 2.0, "apply": 2.0, "mpdm_from_mps": 1.2, "swap": 0.5, "unary": 1.0},
    "C01": {"mpo_shared": 4.0, "mpo": 8.0, "swap": 8.0, "unary": 1.5, "mps_random": 0.5, "add": 0.5, "apply": 1.0, "observe": 1.0, "truncate": 0.0, "canonicalise": 0.3,
            "ensure": 0.3, "compress_lossless": 0.5, "move_qnidx": 0.3, "scale": 0.3, "normalize": 0.0, "mps_product": 0.2, "mpdm_from_mps": 0.0},
    "C03": {"add": 4.5, "apply": 3.5, "move_qnidx": 2.5, "observe": 3.0, "truncate": 0.2},
    "C04": {"canonicalise": 4.0, "ensure": 3.0, "compress_lossless": 4.0, "move_qnidx": 2.0, "truncate": 0.2, "observe": 0.5},
    "C05": {"truncate": 6.0, "add": 3.0, "apply": 3.0, "observe": 0.3},
    "C06": {"truncate": 1.5},
    "C14": {"dump_load": 7.0, "spill_session": 4.0, "spill_gc": 2.5, "drop": 0.6, "observe": 0.5, "truncate": 0.5, "mpdm_from_mps": 1.5, "unary": 2.0, "scale": 2.0,
            "canonicalise": 2.0, "ensure": 1.5, "move_qnidx": 2.0},
    "C13": {"contract": 2.0, "alias_mutate": 1.5, "drop": 1.0, "spill": 0.8, "observe": 3.0, "truncate": 1.0},
}


class ChainProfile(session.Profile):
    world_cls = chain.World

    def __init__(self, pid):
        self.pid = pid

    def gen_header(self, rnd, tier):
        h = chain.gen_header(rnd, nmodels=(1, 2), maxdim=rnd.choice([24, 64, 160]), nmax=rnd.choice([3, 4, 5]))
        # swarm: per-run random subset / re-weighting of operation kinds
        wts = dict(BASE)
        wts.update(TWEAKS.get(self.pid, {}))
        for k in list(wts):
            if wts[k] > 0 and k not in ("mps_random", "mpo") and rnd.random() < 0.15:
                wts[k] = 0.0
            elif rnd.random() < 0.3:
                wts[k] *= rnd.choice([0.3, 3.0])
        h["weights"] = wts
        if self.pid == "C01" and rnd.random() < 0.3:
            # swarm configuration: longer chains of two-level sites, density-density model Hamiltonians with equal couplings,
            # swapped many times (redundant bond labels, exact cancellations)
            h2 = chain.gen_header(rnd, nmodels=(1, 1), flavours=["spin", "spinqn"], maxdim=160, nmax=7, nmin=5)
            h["models"] = h2["models"]
            h["knobs"]["density_prob"] = 0.8
            h["knobs"]["long"] = True
            for k in h["weights"]:
                h["weights"][k] = {"mpo": 3.0, "swap": 20.0, "unary": 0.5}.get(k, 0.0)
        if self.pid == "C01" and rnd.random() < 0.015:
            # rare stress configuration: one production-size operator (thousands of terms, hundreds of distinct local operator strings)
            h2 = chain.gen_header(rnd, nmodels=(1, 1), flavours=["spin"], maxdim=64, nmax=6, nmin=6)
            for st in h2["models"][0]["sites"]:
                if st["type"] != "spin":
                    st.clear(); st.update({"type": "spin", "dof": "s%d" % rnd.randrange(10 ** 6)})
            from simlab.gen import models as gm
            h2["models"][0]["ham"] = gm.gen_hamiltonian(rnd, h2["models"][0]["sites"], 1)
            h2["models"][0].pop("twin_of", None)
            h["models"] = h2["models"][:1]
            h["knobs"]["stress_terms"] = rnd.choice([900, 1400])
        if self.pid in ("C01", "C03", "C07") and rnd.random() < 0.35:
            h["knobs"]["units_prob"] = 0.6      # swarm knob: operators written in "other units" (overall factor 1e-6 .. 1e9)
        return h

    def nsteps(self, rnd, tier):
        return rnd.randint(10, 40)

    def nsteps_for(self, header, rnd, tier):
        if header.get("knobs", {}).get("stress_terms"):
            return rnd.randint(2, 4)
        return rnd.randint(30, 60) if header.get("knobs", {}).get("long") else self.nsteps(rnd, tier)

    def weights(self, header):
        return header["weights"]

    def propose(self, world, rnd, weights):
        if world.knobs.get("stress_terms") and not world.handles("mpo"):
            from simlab.gen import models as gm
            spec = world.model_specs[0]
            terms = gm.gen_stress_terms(rnd, spec["sites"], world.knobs["stress_terms"])
            return {"op": "mpo", "mid": 0, "terms": terms, "algo": rnd.choice(["Hopcroft-Karp", "Hopcroft-Karp", "Hungarian", "qr"]), "offset": 0.0, "out": world.new_handle(),
                    "rngseed": rnd.randrange(2 ** 31)}
        # seed the population first
        if not world.handles("mps"):
            s = chain.PROPOSERS["mps_random"](world, rnd)
        elif not world.handles("mpo") and rnd.random() < 0.7:
            s = chain.PROPOSERS["mpo"](world, rnd)
        else:
            return chain.propose(world, rnd, weights)
        if s is not None:
            s["rngseed"] = rnd.randrange(2 ** 31)
        return s

    def nontrivial_key(self, world, step):
        hs = [step.get(k) for k in ("out", "a", "b") if step.get(k) in world.h]
        if not hs:
            return None
        e = world.h[hs[0]]
        bonds = tuple(e.obj.bond_dims)
        if max(bonds) <= 1:
            return None
        return f"{step['op']}:{step.get('which', step.get('mode', ''))}:{e.kind}:{bonds}:{e.obj.qnidx}:{int(bool(e.obj.to_right))}:{int(e.obj.is_complex)}"


def make_module_api(pid):
    prof = ChainProfile(pid)

    def generate_and_run(seed, index, tier):
        return session.generate_and_run(prof, seed, index, tier)

    def replay(plan):
        return session.replay(prof, plan)
    return generate_and_run, replay
