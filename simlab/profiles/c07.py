from simlab.profiles.chainprof import make_module_api
ID = "C07"
generate_and_run, replay = make_module_api("C07")
