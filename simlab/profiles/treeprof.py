"""Profiles on the tree world (C02, C11, C12): one engine, per-property swarm weights and property tag."""
from simlab import session, tree
from simlab import chain_evolve


BASE = {
    "ttno": 2.0, "ttno_same": 1.0, "ttns_random": 3.0, "ttns_product": 0.6, "from_mps": 0.5,
    "add": 2.5, "scale": 1.2, "unary": 1.0, "apply": 2.5, "canonicalise": 1.2, "compress": 1.5,
    "observe": 4.0, "evolve": 0.0, "lockstep": 0.0, "max_entangled": 0.4, "optimize": 0.0, "expand": 0.3, "normalize": 0.8, "dump_load": 0.4, "drop": 0.3,
}

TWEAKS = {
    "C02": {"ttno": 8.0, "ttno_same": 4.0, "ttns_random": 1.0, "add": 0.3, "scale": 0.2, "unary": 0.2, "apply": 1.5, "canonicalise": 0.2, "compress": 0.2,
            "observe": 1.5, "dump_load": 0.0, "from_mps": 0.2, "ttns_product": 0.2},
    "C11": {},
    "C14": {"normalize": 3.0, "dump_load": 8.0, "evolve": 1.0, "add": 2.0, "scale": 2.0, "unary": 1.5, "canonicalise": 2.0, "compress": 2.0, "observe": 0.5, "from_mps": 1.0, "max_entangled": 0.5},
    "C08": {"optimize": 5.0, "ttno": 3.0, "ttns_random": 3.0, "compress": 1.5, "add": 1.0, "apply": 0.5, "observe": 0.5, "evolve": 0.5, "dump_load": 0.0, "max_entangled": 0.0},
    "C05": {"compress": 8.0, "add": 3.0, "apply": 3.0, "observe": 0.5, "evolve": 1.5, "ttns_random": 3.0},
    "C06": {"evolve": 3.0, "add": 3.0, "apply": 3.0, "compress": 2.0, "canonicalise": 2.0, "observe": 0.5, "max_entangled": 0.6},
    "C13": {"expand": 2.0, "evolve": 4.0, "observe": 5.0, "drop": 1.0, "scale": 3.0, "unary": 3.5, "compress": 2.0, "canonicalise": 2.0, "dump_load": 0.6},
    "C12": {"evolve": 9.0, "evolve_order": 3.0, "lockstep": 1.5, "max_entangled": 1.0, "expand": 1.5, "ttno": 2.5, "ttns_random": 2.5, "observe": 0.8, "add": 0.8, "apply": 0.8, "compress": 0.5, "dump_load": 0.2},
}


class TreeProfile(session.Profile):
    world_cls = tree.TreeWorld

    def __init__(self, pid):
        self.pid = pid

    def gen_header(self, rnd, tier):
        md = rnd.choice([16, 36, 64]) if self.pid == "C12" else rnd.choice([24, 64, 128])
        aux = rnd.random() < {"C02": 0.1, "C11": 0.2, "C12": 0.3, "C08": 0.0}.get(self.pid, 0.2)
        h = tree.gen_header(rnd, maxdim=md, nmax=rnd.choice([3, 4, 5]), aux=aux)
        if self.pid == "C12" and not aux and rnd.random() < 0.3:
            # scenario worlds: a branching tree and a sector in which a state at the sector caps is AWAY from the exactness condition of
            # the splitting integrators (about 5% of the random worlds), found by rejection sampling on the header alone
            for _ in range(30):
                if tree.nocentre_candidates(tree.TreeWorld(dict(h, weights={}), session.Stats())):
                    h["scenario"] = "ps_order"
                    break
                h = tree.gen_header(rnd, maxdim=md, nmax=rnd.choice([3, 4, 5]), aux=False)
        wts = dict(BASE)
        wts.update(TWEAKS.get(self.pid, {}))
        for k in list(wts):
            if wts[k] > 0 and k not in ("ttns_random", "ttno", "evolve") and rnd.random() < 0.15:
                wts[k] = 0.0
            elif rnd.random() < 0.3:
                wts[k] *= rnd.choice([0.3, 3.0])
        if h.get("scenario") == "ps_order":
            wts["evolve_order"] = 12.0
        h["weights"] = wts
        if self.pid in ("C02", "C11") and rnd.random() < (0.4 if self.pid == "C02" else 0.15):
            h["knobs"] = {"units_prob": 0.6}
        return h

    def nsteps(self, rnd, tier):
        if self.pid == "C08":
            return rnd.randint(6, 14)      # every tree sweep re-plans its contractions (seconds per call): short sessions
        return rnd.randint(8, 30)

    def weights(self, header):
        return header["weights"]

    def install_seams(self, world, header):
        chain_evolve._ivp_budget[0] = 500      # tree VMF derivatives are expensive: a smaller deterministic budget bounds the wall time of a run
        return []

    def propose(self, world, rnd, weights):
        if not world.handles("ttns"):
            s = tree.PROPOSERS["ttns_random"](world, rnd)
        elif not world.handles("ttno") and rnd.random() < 0.7:
            s = tree.PROPOSERS["ttno"](world, rnd)
        else:
            return tree.propose(world, rnd, weights)
        if s is not None:
            s["rngseed"] = rnd.randrange(2 ** 31)
        return s

    def nontrivial_key(self, world, step):
        hs = [step.get(k) for k in ("out", "a", "b") if step.get(k) in world.h]
        if not hs:
            return None
        e = world.h[hs[0]]
        bonds = tuple(e.obj.bond_dims)
        if max(bonds) <= 1:
            return None
        ts = world.tree_specs[e.tid]
        shape = ts.get("ctor") if ts.get("ctor") != "explicit" else "x" + "".join(str(len(g)) for g in ts["groups"])
        return f"{step['op']}:{step.get('which', step.get('method', ''))}:{e.kind}:{shape}:{bonds}:{int(e.obj.root.tensor.dtype.kind == 'c')}"


def make_module_api(pid):
    prof = TreeProfile(pid)

    def generate_and_run(seed, index, tier):
        return session.generate_and_run(prof, seed, index, tier)

    def replay(plan):
        return session.replay(prof, plan)
    return generate_and_run, replay
