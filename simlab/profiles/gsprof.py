"""Profiles with ground-state optimisation (C08) and on-the-fly swapping (C17)."""
from simlab import session, chain
from simlab import chain_evolve, chain_gs  # noqa: F401  (register ops)
from simlab.seams.lapack import SimLapack

W_C08 = {"mps_random": 2.0, "mps_product": 1.0, "mpo_ham": 1.5, "optimize": 8.0, "ensure": 0.4, "move_qnidx": 0.4, "canonicalise": 0.3,
         "unary": 0.4, "observe": 0.5, "drop": 0.2, "evolve": 0.3}


class GsProfile(session.Profile):
    world_cls = chain.World

    def __init__(self, pid, weights, flavours=None, maxdims=(16, 36, 100, 200, 200)):
        self.pid = pid
        self.w = weights
        self.flavours = flavours or ["spin", "spinqn", "eph", "eph", "mixed", "two", "multi"]
        self.maxdims = maxdims

    def gen_header(self, rnd, tier):
        h = chain.gen_header(rnd, nmodels=(1, 1), maxdim=rnd.choice(self.maxdims), nmax=rnd.choice([2, 3, 4, 5, 6]), flavours=self.flavours)
        h["weights"] = dict(self.w)
        return h

    def nsteps(self, rnd, tier):
        return rnd.randint(5, 12)

    def weights(self, header):
        return header["weights"]

    def install_seams(self, world, header):
        world.lapack = SimLapack()
        world.fault_counts = world.lapack.fired
        world.lapack.install()
        return [world.lapack]

    def propose(self, world, rnd, weights):
        if not world.handles("mps"):
            s = chain.PROPOSERS["mps_random"](world, rnd)
        elif not world.handles("mpo", pred=lambda e: e.meta.get("hermitian")):
            s = chain.PROPOSERS["mpo_ham"](world, rnd)
        else:
            return chain.propose(world, rnd, weights)
        if s is not None:
            s["rngseed"] = rnd.randrange(2 ** 31)
        return s

    def nontrivial_key(self, world, step):
        if step["op"] in ("qc_model", "swap", "optimize_ofs", "evolve_ofs"):
            # C17 operations: distinct = (operation, algorithm / scheme, swap schedule, size)
            hs = [step.get(k) for k in ("out", "a") if isinstance(step.get(k), str) and step.get(k) in world.h]
            bonds = tuple(world.h[hs[0]].obj.bond_dims) if hs else ()
            if hs and max(bonds) <= 1 and step["op"] != "qc_model":
                return None
            sched = "".join(str(d) for d in step.get("decisions", []))
            return f"{step['op']}:{step.get('algo', step.get('ofs', ''))}:{step.get('swap_jw', '')}:{step.get('k', '')}:{sched}:{bonds}"
        if step["op"] != "optimize":
            return None
        outs = step["out"] if isinstance(step["out"], list) else [step["out"]]
        if outs[0] not in world.h or max(world.h[outs[0]].obj.bond_dims) <= 1:
            return None
        return (f"opt:{step.get('method')}:{step.get('algo')}:{step.get('nroots')}:{'om' if step.get('omega') is not None else ''}:{bool(step.get('force_iterative'))}:"
                f"{step.get('max_cycle')}:{bool(step.get('fail_svd'))}:{bool(step.get('stacked'))}:{bool(step.get('ofs'))}:{tuple(world.h[outs[0]].obj.bond_dims)}:{len(step['procedure'])}")


def make_module_api(pid, weights, **kw):
    prof = GsProfile(pid, weights, **kw)

    def generate_and_run(seed, index, tier):
        return session.generate_and_run(prof, seed, index, tier)

    def replay(plan):
        return session.replay(prof, plan)
    return generate_and_run, replay
