"""Ground / excited-state optimisation on the chain world (C08; swap schedules for C17).

Oracle: sector-restricted exact diagonalisation.  Every Ritz value reported in any sweep is >= the corresponding exact
eigenvalue (Poincare separation) - whether or not the eigensolver converged; returned states are normalised, lie in
the sector (C06 monitor) and their energy equals the reported one when the bond limit reaches the sector ranks.
Seams: SimSolver (Davidson stopped after few cycles / out-of-core), direct-vs-iterative cut-off knob, SimLAPACK,
SimRNG (start vectors, basis completion), SimSwap (scheduler-forced legal swaps, see chain_swap).
"""
import numpy as np
import scipy.linalg

from simlab.core import HarnessError, Violation
from simlab.chain import op, prop, V, nonzero, tens, exact_bond_cap
from simlab.chain_evolve import sector_bond_cap, full_rank_in_sector
from simlab.ref import dense
from simlab.gen import models as gm

import renormalizer.mps.gs as gs_mod
from renormalizer.mps import Mps, Mpo, StackedMpo
from renormalizer.mps.gs import optimize_mps
from renormalizer.utils import CompressConfig, CompressCriteria, OptimizeConfig, Quantity


class _NPProxy:
    """Knob seam: renormalizer.mps.gs decides direct-vs-iterative diagonalisation by np.prod(cshape) < 1000.
    The proxy lets the scheduler force the iterative branch on small problems."""

    def __init__(self):
        self.force_iterative = False

    def __getattr__(self, name):
        return getattr(np, name)

    def prod(self, a, *args, **kw):
        r = np.prod(a, *args, **kw)
        if self.force_iterative and isinstance(a, tuple) and not args and not kw and all(isinstance(x, (int, np.integer)) for x in a):
            return max(int(r), 1000)
        return r


NP_PROXY = _NPProxy()
gs_mod.np = NP_PROXY

_orig_davidson = gs_mod.davidson
SOLVER = {"max_cycle": None, "max_memory": None, "calls": 0, "limited": 0}


def _davidson(aop, x0, precond, *a, **kw):
    SOLVER["calls"] += 1
    if SOLVER["max_cycle"] is not None:
        kw["max_cycle"] = SOLVER["max_cycle"]
        SOLVER["limited"] += 1
    if SOLVER["max_memory"] is not None:
        kw["max_memory"] = SOLVER["max_memory"]
    return _orig_davidson(aop, x0, precond, *a, **kw)


gs_mod.davidson = _davidson

_orig_eigh_iterative = gs_mod.eigh_iterative
MIN_ITERATIVE_DIM = 24


def _eigh_iterative(mps, qn_mask, ltensor, rtensor, cmo, omega, cguess):
    """The cut-off knob must not push the Davidson solver outside its domain: it keeps a subspace of max_space + nroots
    (= 12 + nroots) vectors and is not meant for local problems smaller than that.  The library never uses it below
    prod(cshape) = 1000; when the knob forces the iterative branch on a tiny symmetry-masked problem, fall back to the
    direct solver exactly as the library would have done."""
    if NP_PROXY.force_iterative and int(np.sum(qn_mask)) < MIN_ITERATIVE_DIM:
        SOLVER["tiny_fallback"] = SOLVER.get("tiny_fallback", 0) + 1
        return gs_mod.eigh_direct(mps, qn_mask, ltensor, rtensor, cmo, omega)
    return _orig_eigh_iterative(mps, qn_mask, ltensor, rtensor, cmo, omega, cguess)


gs_mod.eigh_iterative = _eigh_iterative


def sector_eigs(H, model, qntot):
    mask = dense.sector_mask(model, qntot)
    Hs = H[np.ix_(mask, mask)]
    Hs = (Hs + Hs.conj().T) / 2
    wv, vv = np.linalg.eigh(Hs)
    return wv, vv, mask


@op("optimize")
def op_optimize(w, s):
    a, hh = s["a"], s["h"]
    if not w.live_ok(a, hh):
        return "skipped"
    e, eh = w.h[a], w.h[hh]
    if e.kind != "mps" or eh.mid != e.mid or not eh.meta.get("hermitian") or not nonzero(e) or len(e.obj) < 2:
        return "skipped"
    model = e.obj.model
    qntot = np.asarray(e.obj.qntot).reshape(-1)
    H = eh.shadow
    hn = float(np.linalg.norm(H, 2))
    if hn < 1e-8:
        return "skipped"
    omega = s.get("omega")
    wv, vv, mask = sector_eigs(H, model, qntot)
    nroots = s.get("nroots", 1)
    if nroots > len(wv):
        return "skipped"
    guess = e.obj.copy()  # the optimiser documents that it overwrites its guess: work on a copy
    if eh.obj.is_complex and not guess.is_complex:
        guess = guess.to_complex()  # eigenvectors of a complex Hermitian operator are complex: a real guess is refused (assertion)
    oc = OptimizeConfig(procedure=[[int(m), float(p)] for m, p in s["procedure"]])
    oc.method = s.get("method", "2site")
    oc.algo = s.get("algo", "davidson")
    oc.nroots = nroots
    guess.optimize_config = oc
    NP_PROXY.force_iterative = bool(s.get("force_iterative"))
    SOLVER["max_cycle"] = s.get("max_cycle")
    SOLVER["max_memory"] = s.get("max_memory")
    lim0 = SOLVER["limited"]
    calls0 = SOLVER["calls"]
    lap = getattr(w, "lapack", None)
    if lap is not None:
        lap.arm_svd(s.get("fail_svd"))
    operator = eh.obj
    if s.get("stacked") and eh.meta.get("terms_split"):
        operator = None
    w.cur_op = "optimize"
    try:
        if s.get("stacked"):
            # H = H_a + H_b given as two operators
            ta, tb = s["stacked"]
            ma = Mpo(model, [gm.build_op(t) for t in ta])
            mb = Mpo(model, [gm.build_op(t) for t in tb])
            Hst = dense.dense_op(model, [gm.build_op(t) for t in ta + tb])
            if float(np.abs(Hst - Hst.conj().T).max()) > 1e-12:
                return "skipped"
            H = Hst
            hn = float(np.linalg.norm(H, 2))
            wv, vv, mask = sector_eigs(H, model, qntot)
            operator = StackedMpo([ma, mb])
            omega = None
            if (ma.is_complex or mb.is_complex) and not guess.is_complex:
                guess = guess.to_complex()
                guess.optimize_config = oc
        energies, res = optimize_mps(guess, operator, omega=omega)
    except (Violation, HarnessError):
        raise
    except ValueError as ex:
        if nroots > 1 and "broadcast" in str(ex):
            # more roots requested than the local space of some sweep position holds: sweeps report lists of different length (loud refusal)
            w.stats.probes["nroots_exceeds_local_space"] += 1
            return "done"
        raise V({"C08"}, "C08.optimize.raised", f"optimize_mps(method={oc.method}, algo={oc.algo}, nroots={nroots}, omega={omega}, procedure={s['procedure']}): ValueError: {ex}", sig="C08.optimize.raised:ValueError")
    except TypeError as ex:
        if nroots > 1 and s.get("force_iterative") and "Cannot cast" in str(ex):
            # artefact of the cut-off knob: a tiny local problem (solved directly) returned fewer vectors than roots and the
            # next, knob-forced Davidson call received complex + freshly drawn real guesses.  Unreachable without the knob.
            w.stats.probes["knob_artefact_mixed_guess_dtype"] += 1
            return "done"
        raise V({"C08"}, "C08.optimize.raised", f"optimize_mps: TypeError: {ex}", sig="C08.optimize.raised:TypeError")
    except Exception as ex:
        raise V({"C08"}, "C08.optimize.raised", f"optimize_mps(method={oc.method}, algo={oc.algo}, nroots={nroots}, omega={omega}, procedure={s['procedure']}): {type(ex).__name__}: {ex}",
                sig=f"C08.optimize.raised:{type(ex).__name__}")
    finally:
        NP_PROXY.force_iterative = False
        SOLVER["max_cycle"] = None
        SOLVER["max_memory"] = None
        if lap is not None:
            lap.arm_svd(None)
    if SOLVER["limited"] > lim0:
        w.fault_counts["davidson_stopped_early"] = w.fault_counts.get("davidson_stopped_early", 0) + SOLVER["limited"] - lim0
    if SOLVER["calls"] > calls0:
        w.stats.probes["davidson_calls"] += SOLVER["calls"] - calls0
    # ---- variational bound for every reported value of every sweep
    if omega is None:
        exact = wv
    else:
        exact = np.sort((wv - omega) ** 2)
        hn = max(hn, abs(omega)) ** 2
    # direct diagonalisation of the projected problem: rounding only.  Davidson orthogonalises its trial vectors by a single
    # Gram-Schmidt pass (loss of orthogonality ~1e-8 when it has to drop near-dependent vectors): Ritz values may undershoot by that much
    iterative = bool(s.get("force_iterative")) and oc.algo != "direct"
    tol = (1e-6 if iterative else 1e-9) * max(hn, 1.0)
    for isweep, ev in enumerate(energies):
        vals = np.atleast_1d(np.asarray(ev, dtype=float))
        for k, val in enumerate(vals):
            w.stats.ratio("C08.variational", exact[k] - val, tol)
            if val < exact[k] - tol:
                raise V({"C08"}, "C08.variational_bound", f"sweep {isweep}: reported value #{k} = {val!r} lies BELOW the exact eigenvalue {exact[k]!r} of the sector {qntot.tolist()} "
                                                          f"(method={oc.method}, algo={oc.algo}, nroots={nroots}, omega={omega}, max_cycle={s.get('max_cycle')}, fail_svd={s.get('fail_svd')})",
                        sig=f"C08.variational_bound:{oc.method}:{'omega' if omega is not None else 'plain'}")
    states = [res] if nroots == 1 else list(res)
    outs = s["out"] if isinstance(s["out"], list) else [s["out"]]
    cap = sector_bond_cap(model, qntot, "mps")
    mmax = min(int(m) for m, p in s["procedure"][-2:])
    # equality with exact diagonalisation needs the WHOLE schedule at full rank: an earlier sweep with a smaller limit truncates the
    # guess, and later sweeps without perturbation cannot bring back charge sectors that were dropped from the bond labels
    full = all(min(int(m) for m, p in s["procedure"]) >= c for c in cap)
    converged = len(energies) >= 2 and s["procedure"][-1][1] == 0 and s["procedure"][-2][1] == 0 and not s.get("max_cycle") and not s.get("fail_svd")
    for k, (st, h_out) in enumerate(zip(states, outs)):
        got = dense.dense_of(st)
        w.put(h_out, "mps", st, got, e.mid, {"optimized": True})
        t = tens(w.h[h_out])
        nrm = float(np.linalg.norm(t))
        if abs(nrm - 1) > 1e-8:
            raise V({"C08"}, "C08.normalised", f"returned state #{k} has norm {nrm!r}")
        if not np.all(np.asarray(st.qntot).reshape(-1) == qntot):
            raise V({"C08", "C06"}, "C08.sector", f"returned state #{k} is labelled with sector {np.asarray(st.qntot).tolist()}, guess was {qntot.tolist()}")
        if any(b > mmax_ for b, mmax_ in zip(st.bond_dims, [max(int(m) for m, p in s["procedure"])] * (len(st) + 1))):
            raise V({"C08", "C05"}, "C08.bond_limit", f"returned state has bonds {st.bond_dims} above the largest limit of the schedule {s['procedure']}")
        est = float(np.real(np.vdot(t, H @ t))) / nrm ** 2
        if omega is None and nroots == 1:
            # energy of the returned state is itself a Rayleigh quotient: never below the exact ground state
            if est < wv[0] - tol:
                raise V({"C08"}, "C08.state_energy_below_ground", f"returned state has energy {est!r} below the exact ground state {wv[0]!r}")
            gs_space = vv[:, np.abs(wv - wv[0]) <= 1e-8 * max(hn, 1.0)]
            t0 = tens(e)
            ov = float(np.linalg.norm(gs_space.conj().T @ t0[mask])) / max(float(np.linalg.norm(t0)), 1e-300)
            # equality with exact diagonalisation: the variational space must be the whole sector from the start (sweeps without
            # perturbation cannot populate charge sectors that are absent from the bond labels of their guess: the familiar
            # local-minimum problem) and an iterative eigensolver must not start orthogonal to the ground space
            reachable = full_rank_in_sector(e.obj, "mps") and (not iterative or ov > 1e-3)
            if full and converged and reachable:
                etol = 20 * max(oc.e_rtol * abs(wv[0]), oc.e_atol) + 1e-7 * hn
                last = float(np.atleast_1d(energies[-1])[0])
                w.stats.ratio("C08.full_rank_energy", abs(min(float(np.atleast_1d(x)[0]) for x in energies) - wv[0]), etol)
                if abs(min(float(np.atleast_1d(x)[0]) for x in energies) - wv[0]) > etol:
                    raise V({"C08"}, "C08.full_rank_energy", f"bond limit {mmax} reaches the sector ranks {cap} and the schedule converged, but the lowest reported energy "
                                                             f"{min(float(np.atleast_1d(x)[0]) for x in energies)!r} differs from exact {wv[0]!r} (tol {etol:.2e})", sig=f"C08.full_rank_energy:{oc.method}:{oc.algo}")
                if abs(est - wv[0]) > etol:
                    raise V({"C08"}, "C08.full_rank_state_energy", f"returned state energy {est!r} differs from exact {wv[0]!r} at full bond dimension (tol {etol:.2e})",
                            sig=f"C08.full_rank_state_energy:{oc.method}")
                w.stats.probes["full_rank_converged_checks"] += 1
    w.stats.probes[f"optimize:{oc.method}:{oc.algo}:{nroots}:{'omega' if omega is not None else ''}:{'it' if s.get('force_iterative') else ''}:{'st' if s.get('stacked') else ''}"] += 1
    return "done"


@prop("optimize")
def p_optimize(w, rnd):
    hams = w.handles("mpo", pred=lambda e: e.meta.get("hermitian"))
    rnd.shuffle(hams)
    for hh in hams:
        mid = w.h[hh].mid
        st = w.handles("mps", mid, pred=lambda e: nonzero(e) and len(e.obj) >= 2)
        if not st:
            continue
        a = rnd.choice(st)
        e = w.h[a]
        cap = sector_bond_cap(e.obj.model, np.asarray(e.obj.qntot).reshape(-1), "mps")
        mfull = max(cap)
        nsw = rnd.randint(2, 5)
        if rnd.random() < 0.6:
            proc = [[rnd.choice([mfull, mfull + 2]), rnd.choice([0.4, 0.2, 0.0])] for _ in range(nsw - 2)] + [[mfull, 0.0], [mfull, 0.0]]
        else:
            proc = [[rnd.randint(1, max(1, mfull)), rnd.choice([0.5, 0.2, 0.0])] for _ in range(nsw)]
        mask = dense.sector_mask(e.obj.model, np.asarray(e.obj.qntot).reshape(-1))
        nstates = int(mask.sum())
        nroots = 1 if rnd.random() < 0.6 else rnd.randint(2, min(4, max(2, nstates)))
        if nroots > nstates:
            nroots = 1
        s = {"op": "optimize", "a": a, "h": hh, "method": rnd.choice(["1site", "2site", "2site"]), "algo": rnd.choice(["davidson", "direct"]),
             "nroots": nroots, "procedure": proc, "force_iterative": rnd.random() < 0.5}
        if nroots == 1 and rnd.random() < 0.2:
            wv = np.linalg.eigvalsh((w.h[hh].shadow + w.h[hh].shadow.conj().T) / 2)
            s["omega"] = round(float(rnd.uniform(wv[0], wv[-1])), 4)
        if rnd.random() < 0.3 and s["force_iterative"] and s["algo"] == "davidson":
            s["max_cycle"] = rnd.randint(1, 5)
        if rnd.random() < 0.2:
            s["fail_svd"] = rnd.randint(1, 6)
        if nroots == 1 and "omega" not in s and rnd.random() < 0.15:
            spec = w.model_specs[mid]
            ta = gm.gen_hamiltonian(rnd, spec["sites"], spec["qn_size"], 1, 3)
            tb = gm.gen_hamiltonian(rnd, spec["sites"], spec["qn_size"], 1, 3)
            s["stacked"] = [ta, tb]
        s["out"] = [w.new_handle() for _ in range(nroots)] if nroots > 1 else w.new_handle()
        return s
    return None
