"""Driver:  ./check <Cxx> [--tier quick|thorough] [--replay file] [--runs N] [--workers W] [--start I]

exit 0  all runs clean (KNOWN-FINDING lines allowed)
exit 1  at least one un-listed violation, each printed as  VIOLATION property=<id> replay=<path>
exit 2  harness error / worker crash / timeout (never success, never a violation)
"""
import argparse
import json
import os
import queue
import subprocess
import sys
import threading
import time

from simlab import env
from simlab.core import merge_stats
from simlab.registry import REGISTRY, COMPONENTS
from simlab import findings as findings_mod
from simlab import evidence as evidence_mod
from simlab.worker import MARK


class Worker:
    def __init__(self, hash_class):
        self.hash_class = hash_class
        self.proc = None
        self.spawn()

    def spawn(self):
        self.proc = subprocess.Popen(
            [env.PYTHON, "-B", "-m", "simlab.worker"], cwd=env.VERIF, env=env.worker_env(self.hash_class),
            stdin=subprocess.PIPE, stdout=subprocess.PIPE, stderr=subprocess.DEVNULL if not os.environ.get("VERIF_DEBUG") else None,
            text=True, bufsize=1)

    def call(self, cmd, timeout):
        """Send one command, wait for its response.  Returns dict; on death/timeout returns status=error."""
        cmd = dict(cmd)
        cmd["timeout"] = timeout
        killed = []

        def kill():
            killed.append(True)
            try:
                self.proc.kill()
            except Exception:
                pass

        timer = threading.Timer(timeout + 15, kill)
        timer.start()
        try:
            self.proc.stdin.write(json.dumps(cmd) + "\n")
            self.proc.stdin.flush()
            while True:
                line = self.proc.stdout.readline()
                if line == "":
                    rc = self.proc.wait()
                    self.spawn()
                    return {"status": "error", "index": cmd.get("index"), "seed": cmd.get("seed"),
                            "error": ("timeout" if killed or rc == 1 else f"worker died rc={rc}") + f" on {cmd.get('cmd')} index={cmd.get('index')}"}
                if line.startswith(MARK):
                    return json.loads(line[len(MARK):])
        except (BrokenPipeError, OSError) as e:
            self.spawn()
            return {"status": "error", "index": cmd.get("index"), "error": f"pipe: {e}"}
        finally:
            timer.cancel()

    def close(self):
        try:
            self.proc.stdin.write(json.dumps({"cmd": "quit"}) + "\n")
            self.proc.stdin.flush()
            self.proc.wait(timeout=5)
        except Exception:
            try:
                self.proc.kill()
            except Exception:
                pass


def run_batch(pid, tier, base, indices, nworkers, timeout, want_plan_upto=4, deadline=None, class_shift=0):
    """Execute runs `indices` on a pool of workers.  Run i is always executed under hash class i % K
    (class_shift=1: deliberately under the OTHER class, for the cross-class check)."""
    K = len(env.HASH_CLASSES)
    queues = [queue.Queue() for _ in range(K)]
    for i in indices:
        queues[(env.hash_class_of(i) + class_shift) % K].put(i)
    results = {}
    lock = threading.Lock()
    skipped = []

    def loop(w):
        worker = Worker(w % K)
        q = queues[w % K]
        try:
            while True:
                try:
                    i = q.get_nowait()
                except queue.Empty:
                    return
                if deadline is not None and time.time() > deadline:
                    with lock:
                        skipped.append(i)
                    continue
                cmd = {"cmd": "run", "profile": pid, "tier": tier, "index": i, "seed": env.run_seed(base, i, pid),
                       "want_plan": i < want_plan_upto}
                t_run = time.time()
                r = worker.call(cmd, timeout)
                r["wall_s"] = round(time.time() - t_run, 2)
                with lock:
                    results[i] = r
        finally:
            worker.close()

    nworkers = max(K, nworkers - nworkers % K)
    threads = [threading.Thread(target=loop, args=(w,), daemon=True) for w in range(nworkers)]
    for t in threads:
        t.start()
    for t in threads:
        t.join()
    return results, skipped


def replay_plan(pid, plan, hash_class, timeout, worker=None):
    own = worker is None
    if own:
        worker = Worker(hash_class)
    try:
        return worker.call({"cmd": "replay", "profile": pid, "plan": plan, "want_plan": True}, timeout)
    finally:
        if own:
            worker.close()


def main(argv=None):
    ap = argparse.ArgumentParser()
    ap.add_argument("pid")
    ap.add_argument("--tier", default=os.environ.get("VERIF_TIER", "quick"))
    ap.add_argument("--replay", default=None)
    ap.add_argument("--runs", type=int, default=None)
    ap.add_argument("--start", type=int, default=0)
    ap.add_argument("--workers", type=int, default=int(os.environ.get("VERIF_WORKERS", min(16, os.cpu_count() or 2))))
    ap.add_argument("--no-shrink", action="store_true")
    ap.add_argument("--no-evidence", action="store_true")
    args = ap.parse_args(argv)
    pid = args.pid
    if pid not in REGISTRY:
        print(f"unknown property {pid}; known: {sorted(REGISTRY)}")
        return 2
    tier = args.tier if args.tier in ("quick", "thorough") else "quick"
    reg = REGISTRY[pid]
    budget = reg["budgets"][tier]
    timeout = budget.get("timeout", 300)
    base = env.base_seed()
    known = findings_mod.load(os.path.join(env.VERIF, "known_findings.txt"))

    if args.replay:
        return do_replay(pid, args.replay, timeout, known)

    t0 = time.time()
    nruns = args.runs if args.runs is not None else budget["runs"]
    indices = list(range(args.start, args.start + nruns))
    print(f"[simlab] property={pid} tier={tier} VERIF_SEED={base} runs={nruns} workers={args.workers}", flush=True)
    deadline = t0 + budget["wall"] if budget.get("wall") else None
    results, skipped = run_batch(pid, tier, base, indices, args.workers, timeout, deadline=deadline)

    # --- determinism self-check: re-execute a sample in fresh interpreters, digests must match
    ncheck = budget.get("recheck", 4 if tier == "quick" else 32)
    ok_idx = [i for i in indices if results.get(i, {}).get("status") == "ok"]
    stride = max(1, len(ok_idx) // max(1, ncheck))
    sample = ok_idx[::stride][:ncheck]
    nondet = []
    if sample:
        again, _ = run_batch(pid, tier, base, sample, min(args.workers, max(2, len(sample))), timeout, want_plan_upto=0)
        for i in sample:
            if again.get(i, {}).get("digest") != results[i].get("digest") or again.get(i, {}).get("status") != "ok":
                nondet.append((i, results[i].get("digest"), again.get(i, {}).get("digest"), again.get(i, {}).get("error")))

    # --- cross-class check: results declared hash-seed independent (xdigest) must be bit-identical under the other class
    nx = budget.get("xclass", 0)
    xsample = [i for i in ok_idx if results[i].get("xdigest")][:: max(1, len(ok_idx) // max(1, nx))][:nx] if nx else []
    if xsample:
        other, _ = run_batch(pid, tier, base, xsample, min(args.workers, max(2, len(xsample))), timeout, want_plan_upto=0, class_shift=1)
        for i in xsample:
            if other.get(i, {}).get("xdigest") != results[i].get("xdigest"):
                nondet.append((i, "xclass:" + str(results[i].get("xdigest")), "xclass:" + str(other.get(i, {}).get("xdigest")), other.get(i, {}).get("error")))

    errors = [r for r in results.values() if r.get("status") == "error"]
    viols = [r for r in results.values() if r.get("status") == "violation"]

    stats = {}
    keys = set()
    nontrivial_keys = set()
    digests = set()
    samples = []
    nsteps = 0
    evaluations = 0
    for i in sorted(results):
        r = results[i]
        merge_stats(stats, r.get("stats", {}))
        nsteps += r.get("nsteps", 0)
        evaluations += r.get("evaluations", 1)
        if r.get("digest"):
            digests.add(r["digest"])
        for k in r.get("nontrivial_keys", []):
            nontrivial_keys.add(k)
        if r.get("plan") is not None and len(samples) < 3 and r.get("status") == "ok":
            samples.append(evidence_mod.abridge_plan(r["plan"], r.get("sample_note")))

    exit_code = 0
    violation_lines = []
    known_lines = []
    reported_sigs = set()
    worker_cache = {}
    for r in sorted(viols, key=lambda r: r["index"]):
        v = r["violation"]
        sig = v.get("sig", v.get("inv"))
        if sig in reported_sigs:
            continue
        reported_sigs.add(sig)
        k = findings_mod.match(known, pid, sig)
        if k is not None:
            known_lines.append(f"KNOWN-FINDING: property={pid} sig={sig} {k}")
            continue
        if len(violation_lines) >= 5:
            continue
        plan = r.get("plan")
        hc = env.hash_class_of(r["index"])
        if plan is not None and not args.no_shrink and REGISTRY[pid].get("shrink", True):
            from simlab import shrink
            plan = shrink.shrink(pid, plan, v, hc, timeout, deadline=time.time() + budget.get("shrink_wall", 240))
        path = os.path.join(env.VERIF, "replays", f"{pid}_{sig_slug(sig)}_{r['index']}.json")
        doc = {"property": pid, "base_seed": base, "index": r["index"], "run_seed": r.get("seed"),
               "hash_class": hc, "hashseed": env.HASH_CLASSES[hc], "tier": tier,
               "violation": v, "plan": plan}
        # confirm in a fresh interpreter
        if plan is not None:
            rr = replay_plan(pid, plan, hc, timeout)
            doc["replay_confirmed"] = (rr.get("status") == "violation" and rr["violation"].get("inv") == v.get("inv"))
            doc["replay_digest"] = rr.get("digest")
            if rr.get("status") == "violation":
                doc["violation"] = rr["violation"]
        os.makedirs(os.path.dirname(path), exist_ok=True)
        with open(path, "w") as f:
            json.dump(doc, f, indent=1)
        violation_lines.append(f"VIOLATION property={pid} replay={path}")
        print(f"  violation inv={v.get('inv')} sig={sig} step={v.get('step')} detail={str(v.get('detail'))[:600]}")
        exit_code = 1

    for l in known_lines:
        print(l)
    for l in violation_lines:
        print(l)

    if errors or nondet or skipped:
        for e in errors[:5]:
            print(f"HARNESS-ERROR index={e.get('index')} seed={e.get('seed')} {e.get('error')}")
            if e.get("traceback"):
                print(e["traceback"])
        for n in nondet[:5]:
            print(f"NONDETERMINISM index={n[0]} digest1={n[1]} digest2={n[2]} err={n[3]}")
        if skipped:
            print(f"HARNESS-ERROR wall budget exhausted, {len(skipped)} runs skipped")
        if exit_code == 0:
            exit_code = 2

    wall = time.time() - t0
    if not args.no_evidence:
        ev = evidence_mod.build(pid, tier, base, reg, results, stats, evaluations, nontrivial_keys, digests, samples,
                                nsteps, wall, len(viols), len(known_lines), len(errors), len(nondet), len(sample) + len(xsample),
                                args.workers, COMPONENTS)
        ok = evidence_mod.write(pid, ev)
        if not ok and exit_code == 0:
            print("HARNESS-ERROR evidence file failed validation")
            exit_code = 2
    slow = sorted(((r.get("wall_s", 0.0), i) for i, r in results.items()), reverse=True)[:3]
    print("[simlab] slowest runs (s, index): " + ", ".join(f"{a:.1f}@{b}" for a, b in slow), flush=True)
    print(f"[simlab] property={pid} runs={len(results)} steps={nsteps} evaluations={evaluations} violations={len(viols)} "
          f"known={len(known_lines)} errors={len(errors)} nondet={len(nondet)}/{len(sample)} wall={wall:.1f}s exit={exit_code}", flush=True)
    return exit_code


def sig_slug(sig):
    return "".join(c if c.isalnum() else "_" for c in str(sig))[:60]


def do_replay(pid, path, timeout, known):
    with open(path) as f:
        doc = json.load(f)
    hc = doc.get("hash_class", 0)
    r = replay_plan(pid, doc["plan"], hc, timeout)
    if r.get("status") == "violation":
        v = r["violation"]
        print(f"  replayed: inv={v.get('inv')} step={v.get('step')} detail={str(v.get('detail'))[:800]}")
        print(f"  digest={r.get('digest')} (recorded {doc.get('replay_digest')})")
        k = findings_mod.match(known, pid, v.get("sig", v.get("inv")))
        if k is not None:
            print(f"KNOWN-FINDING: property={pid} sig={v.get('sig')} {k}")
            return 0
        print(f"VIOLATION property={pid} replay={path}")
        return 1
    if r.get("status") == "error":
        print(f"HARNESS-ERROR {r.get('error')}\n{r.get('traceback', '')}")
        return 2
    print("  replay: no violation")
    return 0


if __name__ == "__main__":
    sys.exit(main())
