"""C17: fermionic (Jordan-Wigner) Hamiltonians and on-the-fly site reordering.

  qc_model     random symmetric one-/two-electron integrals -> int_to_h + qc_model + Mpo  vs  a second-quantised matrix
               assembled by the harness from its own anticommuting operators; Hermiticity; [H, N_alpha] = [H, N_beta] = 0
  optimize_ofs optimize_mps with on-the-fly swapping: natural criteria (OFS-S / OFS-D / OFS-D/S / debug) and, through the
               SimSwap seam, scheduler-forced legal swap decisions at every two-site update
  evolve_ofs   two-site TDVP with swapping
After every such call: the (in-place re-ordered) operator equals the original one expressed in its new site order
(with the fermionic sign map when ofs_swap_jw), energies obey the variational bound of the UNCHANGED spectrum, the
returned state expressed back in the original order is a valid state of the original problem.
"""
import itertools

import numpy as np
import scipy.linalg

from simlab.core import HarnessError, Violation
from simlab.chain import op, prop, V, nonzero, tens
from simlab.chain_evolve import sector_bond_cap
from simlab.chain_gs import sector_eigs
from simlab.ref import dense

import renormalizer.mps.mp as mp_mod
from renormalizer.model import Model
from renormalizer.model.h_qc import qc_model, int_to_h
from renormalizer.mps import Mps, Mpo
from renormalizer.mps.gs import optimize_mps
from renormalizer.utils import CompressConfig, CompressCriteria, OptimizeConfig, EvolveConfig, EvolveMethod, OFS

OFS_MAP = {"s": OFS.ofs_s, "d": OFS.ofs_d, "ds": OFS.ofs_ds, "debug": OFS.ofs_debug}

# ---------------------------------------------------------------------------------------------- SimSwap seam
_orig_entropy = mp_mod.calc_vn_entropy
SWAP = {"decisions": None, "i": 0, "forced": 0}


def _entropy(p):
    """With OFS-S the swap decision is `entropy1 <= entropy2` (mp.py).  When the scheduler supplies decisions the two
    consecutive calls of one decision return values that make the comparison come out as scheduled."""
    d = SWAP["decisions"]
    if d is None:
        return _orig_entropy(p)
    k = SWAP["i"]
    SWAP["i"] += 1
    dec = d[(k // 2) % len(d)] if d else 0
    if k % 2 == 0:
        return 0.0
    SWAP["forced"] += 1
    return -1.0 if dec else 1.0


mp_mod.calc_vn_entropy = _entropy


# ---------------------------------------------------------------------------------------------- fermionic reference

def jw_ops(nsite, site_of_orb):
    """Annihilation operators a_orb as dense matrices for orbitals placed on sites site_of_orb[orb] (JW string over
    the sites to the left).  Local basis: index 0 = empty, 1 = occupied."""
    Z = np.diag([1.0, -1.0])
    lower = np.array([[0.0, 1.0], [0.0, 0.0]])
    out = {}
    for orb, site in site_of_orb.items():
        mats = [Z if k < site else (lower if k == site else np.eye(2)) for k in range(nsite)]
        out[orb] = dense.kron_all(mats)
    return out


def fermion_hamiltonian(h, eri, site_of_orb):
    """H = sum_{pq,s} h_pq a+_{ps} a_{qs} + 1/2 sum_{pqrs,s,t} (pq|rs) a+_{ps} a+_{rt} a_{st} a_{qs}   (chemist notation),
    spin orbital index = 2*spatial + spin."""
    norb = len(h)
    ns = 2 * norb
    a = jw_ops(ns, site_of_orb)
    ad = {k: v.T for k, v in a.items()}
    d = 2 ** ns
    H = np.zeros((d, d))
    for p, q in itertools.product(range(norb), repeat=2):
        if h[p][q] != 0:
            for s in (0, 1):
                H += h[p][q] * (ad[2 * p + s] @ a[2 * q + s])
    for p, q, r, s_ in itertools.product(range(norb), repeat=4):
        g = eri[p][q][r][s_]
        if g != 0:
            for s in (0, 1):
                for t in (0, 1):
                    H += 0.5 * g * (ad[2 * p + s] @ ad[2 * r + t] @ a[2 * s_ + t] @ a[2 * q + s])
    return H


def gen_integrals(rnd, norb):
    h = np.zeros((norb, norb))
    unit = rnd.random() < 0.2      # equal (unit) integrals: model Hamiltonians with exact cancellations
    for p in range(norb):
        for q in range(p, norb):
            if rnd.random() < 0.8:
                h[p, q] = h[q, p] = round(rnd.uniform(-1, 1), 4) if not unit else rnd.choice([1.0, -1.0])
    eri = np.zeros((norb,) * 4)
    dens = rnd.choice([1.0, 0.6, 0.3])
    pattern = rnd.choice(["any", "any", "any", "coulomb_exchange"])     # (pp|qq) and (pq|pq) only: PPP / Hubbard-like sparsity
    for p, q, r, s in itertools.product(range(norb), repeat=4):
        if pattern == "coulomb_exchange" and not ((p == q and r == s) or ((p, q) == (r, s))):
            continue
        if p <= q and r <= s and (p, q) <= (r, s) and rnd.random() < dens:
            v = round(rnd.uniform(-0.5, 0.5), 4) if not unit else rnd.choice([1.0, 1.0, -1.0])
            for a_, b_, c_, d_ in ((p, q, r, s), (q, p, r, s), (p, q, s, r), (q, p, s, r), (r, s, p, q), (s, r, p, q), (r, s, q, p), (s, r, q, p)):
                eri[a_, b_, c_, d_] = v
    return h.tolist(), eri.tolist()


def _perm_from_models(old_model, new_model):
    """perm[j] = old site index of the basis now at position j"""
    old = [b.dofs for b in old_model.basis]
    return [old.index(b.dofs) for b in new_model.basis]


def fermionic_permutation(nsite, perm):
    """Matrix F with F|n (old order)> = sign |n permuted (new order)>: the JW encodings of one fermionic state for two site orders."""
    d = 2 ** nsite
    F = np.zeros((d, d))
    for idx in range(d):
        occ = [(idx >> (nsite - 1 - k)) & 1 for k in range(nsite)]
        new = [occ[perm[j]] for j in range(nsite)]
        # sign: number of inversions among occupied orbitals
        occ_old_positions = [perm[j] for j in range(nsite) if new[j]]
        inv = sum(1 for a_ in range(len(occ_old_positions)) for b_ in range(a_ + 1, len(occ_old_positions)) if occ_old_positions[a_] > occ_old_positions[b_])
        nidx = 0
        for bit in new:
            nidx = (nidx << 1) | bit
        F[nidx, idx] = -1.0 if inv % 2 else 1.0
    return F


# ---------------------------------------------------------------------------------------------- operations

@op("qc_model")
def op_qc_model(w, s):
    h = np.array(s["h"])
    eri = np.array(s["eri"])
    norb = len(h)
    sh, aseri = int_to_h(h, eri)
    try:
        basis, terms = qc_model(sh, aseri, stacked=bool(s.get("stacked")), conserve_qn=s.get("conserve_qn", True))
    except Exception as ex:
        raise V({"C17"}, "C17.qc_model.raised", f"qc_model(norb={norb}, stacked={s.get('stacked')}): {type(ex).__name__}: {ex}", sig=f"C17.qc_model.raised:{type(ex).__name__}")
    flat = list(itertools.chain.from_iterable(terms)) if s.get("stacked") else terms
    if not flat:
        return "skipped"
    model = Model(basis, flat)
    ns = 2 * norb
    ref = fermion_hamiltonian(h.tolist(), eri.tolist(), {k: k for k in range(ns)})
    got = dense.dense_op(model, model.ham_terms)
    sc = max(float(np.abs(ref).max()), 1e-300)
    dev = float(np.abs(got - ref).max())
    w.stats.ratio("C17.qc_model", dev, 1e-10 * sc)
    if dev > 1e-10 * sc:
        raise V({"C17"}, "C17.qc_model.matrix", f"qc_model(norb={norb}, stacked={bool(s.get('stacked'))}, qn={s.get('conserve_qn', True)}): Jordan-Wigner spin model differs from the "
                                                f"second-quantised fermionic Hamiltonian by {dev:.3e} (scale {sc:.3e})", sig="C17.qc_model.matrix")
    if float(np.abs(got - got.conj().T).max()) > 1e-10 * sc:
        raise V({"C17"}, "C17.qc_model.hermitian", "Jordan-Wigner Hamiltonian of symmetric integrals is not Hermitian")
    a = jw_ops(ns, {k: k for k in range(ns)})
    for name, par in (("alpha", 0), ("beta", 1)):
        N = sum(a[k].T @ a[k] for k in range(ns) if k % 2 == par)
        if float(np.abs(got @ N - N @ got).max()) > 1e-10 * sc:
            raise V({"C17", "C06"}, "C17.qc_model.number", f"Jordan-Wigner Hamiltonian does not commute with N_{name}")
    spec = {"flavour": "qc", "qn_size": 2 if s.get("conserve_qn", True) else 1,
            "sites": [{"type": "spin", "dof": k, "qn": ([[0, 0], [1, 0]] if k % 2 == 0 else [[0, 0], [0, 1]]) if s.get("conserve_qn", True) else None} for k in range(ns)],
            "ham": [], "qc": {"h": s["h"], "eri": s["eri"]}}
    w.models.append(model)
    w.model_specs.append(spec)
    w.bases.append(basis)
    mid = len(w.models) - 1
    mpo = Mpo(model, algo=s.get("algo", "qr"))
    w.put(s["out"], "mpo", mpo, ref.astype(complex), mid, {"hermitian": True, "symbolic": True, "jw": True, "offset": 0.0})
    w.check_value(s["out"], {"C17", "C01"}, "C17.qc_model.mpo", what="Mpo(qc model)")
    w.stats.probes["qc_models"] += 1
    return "done"


def _expected_after_reorder(w, entry_mid, H0, old_model, new_model, jw):
    n = len(old_model.basis)
    perm = _perm_from_models(old_model, new_model)
    if jw:
        F = fermionic_permutation(n, perm)
        return F @ H0 @ F.T, perm
    pd = dense.pdims(old_model)
    return dense.permute_sites_op(H0, pd, perm), perm


def _register_model(w, model, spec_from_mid, perm):
    spec = dict(w.model_specs[spec_from_mid])
    spec["sites"] = [spec["sites"][p] for p in perm]
    w.models.append(model)
    w.model_specs.append(spec)
    w.bases.append(list(model.basis))
    return len(w.models) - 1


@op("optimize_ofs")
def op_optimize_ofs(w, s):
    a, hh = s["a"], s["h"]
    if not w.live_ok(a, hh):
        return "skipped"
    e, eh = w.h[a], w.h[hh]
    if e.kind != "mps" or eh.mid != e.mid or not eh.meta.get("hermitian") or not eh.meta.get("symbolic") or not nonzero(e) or len(e.obj) < 3:
        return "skipped"
    if type(e.obj.model).__name__ == "HolsteinModel" or any(b.multi_dof for b in e.obj.model.basis):
        return "skipped"
    model0 = e.obj.model
    H0 = eh.shadow.copy()
    qntot = np.asarray(e.obj.qntot).reshape(-1)
    hn = float(np.linalg.norm(H0, 2))
    if hn < 1e-8:
        return "skipped"
    jw = bool(eh.meta.get("jw")) and bool(s.get("swap_jw", True))
    if eh.meta.get("jw") and not jw:
        return "skipped"  # swapping Jordan-Wigner sites without the sign correction is not a symmetry of the problem
    wv, vv, mask = sector_eigs(H0, model0, qntot)
    guess = e.obj.copy()
    if eh.obj.is_complex and not guess.is_complex:
        guess = guess.to_complex()
    ofs = OFS_MAP[s["ofs"]]
    proc = []
    for m, pct in s["procedure"]:
        proc.append([CompressConfig(CompressCriteria.fixed, max_bonddim=int(m), ofs=ofs, ofs_swap_jw=jw), float(pct)])
    oc = OptimizeConfig(procedure=proc)
    oc.method = "2site"
    oc.algo = "direct"
    guess.optimize_config = oc
    SWAP["decisions"] = s.get("decisions") if s["ofs"] == "s" else None
    SWAP["i"] = 0
    f0 = SWAP["forced"]
    w.changed.add(hh)  # documented: the Hamiltonian operator is re-ordered in place
    w.cur_op = "optimize_ofs"
    try:
        energies, res = optimize_mps(guess, eh.obj)
    except (Violation, HarnessError):
        raise
    except Exception as ex:
        raise V({"C17"}, "C17.ofs.raised", f"optimize_mps with {s['ofs']} swapping (jw={jw}, decisions={s.get('decisions')}): {type(ex).__name__}: {ex}", sig=f"C17.ofs.raised:{type(ex).__name__}")
    finally:
        SWAP["decisions"] = None
    if SWAP["forced"] > f0:
        w.fault_counts["forced_swap_decisions"] = w.fault_counts.get("forced_swap_decisions", 0) + SWAP["forced"] - f0
    # ---- operator: equals the original one in its new site order
    new_op_model = eh.obj.model
    Hexp, perm_op = _expected_after_reorder(w, eh.mid, H0, model0, new_op_model, jw)
    nswaps = sum(1 for i, p in enumerate(perm_op) if p != i)
    if nswaps:
        w.stats.probes["ofs_runs_with_reordering"] += 1
    eh.shadow = Hexp
    eh.mid = _register_model(w, new_op_model, e.mid, perm_op)
    w.check_value(hh, {"C17", "C01", "C13"}, "C17.ofs.operator", what=f"Hamiltonian after {s['ofs']} swapping (order {perm_op})")
    # ---- spectrum unchanged, energies variational
    wnew = np.linalg.eigvalsh((Hexp + Hexp.conj().T) / 2)
    wold = np.linalg.eigvalsh((H0 + H0.conj().T) / 2)
    if float(np.abs(wnew - wold).max()) > 1e-9 * max(hn, 1.0):
        raise HarnessError("reference permutation changed the spectrum")
    tol = 1e-9 * max(hn, 1.0)
    for isweep, ev in enumerate(energies):
        val = float(np.atleast_1d(ev)[0])
        if val < wv[0] - tol:
            raise V({"C17", "C08"}, "C17.ofs.variational", f"sweep {isweep} of an optimisation with swapping reports {val!r} below the exact sector ground state {wv[0]!r} "
                                                          f"(ofs={s['ofs']}, jw={jw}, final order {perm_op})", sig=f"C17.ofs.variational:{s['ofs']}:{'jw' if jw else 'plain'}")
    # ---- returned state: expressed in ITS model's order it must be a normalised state of the sector with energy >= E0
    smodel = res.model
    Hs, perm_s = _expected_after_reorder(w, e.mid, H0, model0, smodel, jw)
    mid_s = _register_model(w, smodel, e.mid, perm_s)
    got = dense.dense_of(res)
    w.put(s["out"], "mps", res, got, mid_s, {"optimized": True})
    t = tens(w.h[s["out"]])
    nrm = float(np.linalg.norm(t))
    if abs(nrm - 1) > 1e-8:
        raise V({"C17", "C08"}, "C17.ofs.normalised", f"state returned by an optimisation with swapping has norm {nrm!r}")
    est = float(np.real(np.vdot(t, Hs @ t)))
    if est < wv[0] - tol:
        raise V({"C17"}, "C17.ofs.state_energy", f"returned state (order {perm_s}) has energy {est!r} below the exact ground state {wv[0]!r}: state and operator orders are inconsistent",
                sig="C17.ofs.state_energy")
    cap = sector_bond_cap(model0, qntot, "mps")
    mmax = min(int(m) for m, p in s["procedure"][-2:])
    if all(mmax >= c for c in [max(cap)] * len(cap)) and len(energies) >= 3 and s["procedure"][-1][1] == 0:
        last = min(float(np.atleast_1d(x)[0]) for x in energies)
        w.stats.ratio("C17.ofs.full_rank", abs(est - last), 1e-6 * max(hn, 1.0))
    w.stats.probes[f"ofs:{s['ofs']}:{'jw' if jw else 'plain'}"] += 1
    return "done"


@op("evolve_ofs")
def op_evolve_ofs(w, s):
    a, hh = s["a"], s["h"]
    if not w.live_ok(a, hh):
        return "skipped"
    e, eh = w.h[a], w.h[hh]
    if e.kind != "mps" or eh.mid != e.mid or not eh.meta.get("hermitian") or not eh.meta.get("symbolic") or not nonzero(e) or len(e.obj) < 3:
        return "skipped"
    if type(e.obj.model).__name__ == "HolsteinModel" or any(b.multi_dof for b in e.obj.model.basis):
        return "skipped"
    jw = bool(eh.meta.get("jw"))
    model0 = e.obj.model
    H0 = eh.shadow.copy()
    qntot = np.asarray(e.obj.qntot).reshape(-1)
    hn = float(np.linalg.norm(H0, 2))
    if hn < 1e-3:
        return "skipped"
    cap = sector_bond_cap(model0, qntot, "mps")
    m = max(dense.pdims(model0)) ** (len(cap) // 2)  # plain (symmetry-unaware) cap: safe upper bound
    src = e.obj
    src.evolve_config = EvolveConfig(EvolveMethod.tdvp_ps2)
    src.compress_config = CompressConfig(CompressCriteria.fixed, max_bonddim=int(m), ofs=OFS_MAP[s["ofs"]], ofs_swap_jw=jw)
    dt = s["dt"]
    SWAP["decisions"] = s.get("decisions") if s["ofs"] == "s" else None
    SWAP["i"] = 0
    f0 = SWAP["forced"]
    psi0 = e.shadow.copy()
    w.changed.add(hh)
    w.cur_op = "evolve_ofs"
    try:
        res = src.evolve(eh.obj, dt)
    except (Violation, HarnessError):
        raise
    except Exception as ex:
        raise V({"C17"}, "C17.ofs.raised", f"tdvp_ps2 with {s['ofs']} swapping (jw={jw}): {type(ex).__name__}: {ex}", sig=f"C17.ofs.raised:evolve:{type(ex).__name__}")
    finally:
        SWAP["decisions"] = None
        src.compress_config = CompressConfig(CompressCriteria.fixed, max_bonddim=int(m))
    if SWAP["forced"] > f0:
        w.fault_counts["forced_swap_decisions"] = w.fault_counts.get("forced_swap_decisions", 0) + SWAP["forced"] - f0
    new_op_model = eh.obj.model
    Hexp, perm_op = _expected_after_reorder(w, eh.mid, H0, model0, new_op_model, jw)
    eh.shadow = Hexp
    eh.mid = _register_model(w, new_op_model, e.mid, perm_op)
    w.check_value(hh, {"C17", "C01", "C13"}, "C17.ofs.operator", what=f"Hamiltonian after swapping during TDVP (order {perm_op})")
    smodel = res.model
    Hs, perm_s = _expected_after_reorder(w, e.mid, H0, model0, smodel, jw)
    mid_s = _register_model(w, smodel, e.mid, perm_s)
    got = dense.dense_of(res)
    w.put(s["out"], "mps", res, got, mid_s, {"evolved": True})
    # the state permuted back equals the un-swapped exact trajectory when nothing is truncated and the input spans the sector
    from simlab.chain_evolve import full_rank_in_sector
    U = scipy.linalg.expm(-1j * dt * H0)
    t_before = psi0 / e.obj.coeff if e.obj.coeff != 0 else psi0
    ex = U @ psi0
    n = len(model0.basis)
    if jw:
        F = fermionic_permutation(n, perm_s)
        back = F.T @ got
    else:
        inv = [perm_s.index(i) for i in range(n)]
        back = dense.permute_sites_vec(got, dense.pdims(smodel), inv)
    exn = ex / np.linalg.norm(ex) * np.linalg.norm(back)
    x = hn * abs(dt)
    if full_rank_in_sector(e.obj, "mps") and x <= 0.5 and any(p != i for i, p in enumerate(perm_s)):
        err = float(np.linalg.norm(back - exn)) / max(float(np.linalg.norm(exn)), 1e-300)
        w.stats.ratio("C17.ofs.trajectory", err, 1e-7)
        if err > 1e-7:
            raise V({"C17", "C09"}, "C17.ofs.trajectory", f"two-site TDVP with swapping (order {perm_s}, jw={jw}): state permuted back differs from the exact un-swapped trajectory by {err:.3e}",
                    sig=f"C17.ofs.trajectory:{'jw' if jw else 'plain'}")
        w.stats.probes["ofs_trajectory_checks"] += 1
    nb = float(np.linalg.norm(back))
    if abs(nb - np.linalg.norm(got)) > 1e-9 * max(nb, 1.0):
        raise HarnessError("permutation is not unitary")
    w.stats.probes[f"ofs_evolve:{s['ofs']}:{'jw' if jw else 'plain'}"] += 1
    return "done"


# ---------------------------------------------------------------------------------------------- proposals

@prop("qc_model")
def p_qc_model(w, rnd):
    if len(w.models) > 30:
        return None
    norb = rnd.choice([1, 2, 2, 2, 3])
    h, eri = gen_integrals(rnd, norb)
    return {"op": "qc_model", "h": h, "eri": eri, "stacked": rnd.random() < 0.3, "conserve_qn": rnd.random() < 0.85, "algo": rnd.choice(["qr", "Hopcroft-Karp"]),
            "out": w.new_handle()}


def _pick_ofs(w, rnd):
    hams = w.handles("mpo", pred=lambda e: e.meta.get("hermitian") and e.meta.get("symbolic") and len(e.obj) >= 3)
    rnd.shuffle(hams)
    for hh in hams:
        mid = w.h[hh].mid
        st = w.handles("mps", mid, pred=lambda e: nonzero(e) and not any(b.multi_dof for b in e.obj.model.basis))
        if st:
            return rnd.choice(st), hh
    return None


@prop("optimize_ofs")
def p_optimize_ofs(w, rnd):
    p = _pick_ofs(w, rnd)
    if p is None:
        return None
    a, hh = p
    e = w.h[a]
    cap = sector_bond_cap(e.obj.model, np.asarray(e.obj.qntot).reshape(-1), "mps")
    mfull = max(cap)
    nsw = rnd.randint(3, 5)
    m = mfull if rnd.random() < 0.6 else rnd.randint(1, max(1, mfull))
    proc = [[m, rnd.choice([0.4, 0.2, 0.0])] for _ in range(nsw - 2)] + [[m, 0.0], [m, 0.0]]
    ofs = rnd.choice(["s", "s", "d", "ds", "debug"])
    s = {"op": "optimize_ofs", "a": a, "h": hh, "ofs": ofs, "procedure": proc, "swap_jw": True, "out": w.new_handle()}
    if ofs == "s" and rnd.random() < 0.7:
        s["decisions"] = [int(rnd.random() < 0.4) for _ in range(rnd.randint(1, 12))]
    return s


@prop("evolve_ofs")
def p_evolve_ofs(w, rnd):
    p = _pick_ofs(w, rnd)
    if p is None:
        return None
    a, hh = p
    hn = float(np.linalg.norm(w.h[hh].shadow, 2))
    if hn < 1e-3:
        return None
    ofs = rnd.choice(["s", "s", "d", "ds"])
    s = {"op": "evolve_ofs", "a": a, "h": hh, "ofs": ofs, "dt": round(rnd.uniform(0.02, 0.5) / hn, 6), "out": w.new_handle()}
    if ofs == "s" and rnd.random() < 0.7:
        s["decisions"] = [int(rnd.random() < 0.4) for _ in range(rnd.randint(1, 12))]
    return s
