"""known_findings.txt:  lines
    finding: property=<id> sig=<signature> <what fails>      -> reported as KNOWN-FINDING, exit 0
    fixed:   property=<id> <commit> <what failed>            -> documentation only, suppresses nothing
The file is never written at run time."""
import os
import re


def load(path):
    out = []
    if not os.path.exists(path):
        return out
    for line in open(path):
        line = line.strip()
        if not line or line.startswith("#"):
            continue
        m = re.match(r"finding:\s+property=(\S+)\s+sig=(\S+)\s*(.*)", line)
        if m:
            out.append({"property": m.group(1), "sig": m.group(2), "text": m.group(3)})
    return out


def match(known, pid, sig):
    for k in known:
        if k["property"] == pid and k["sig"] == sig:
            return k["text"]
    return None
