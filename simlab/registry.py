"""Light-weight registry of profiles (imported by the driver; must not import renormalizer)."""

COMPONENTS = {
    "real": ["renormalizer (imported from /repo working tree)", "numpy", "scipy", "opt_einsum", "h5py"],
    "stub": ["print_tree (pretty-printer used only by print_as_tree; /verif/stubs/print_tree.py)"],
}

REGISTRY = {}


def register(pid, module, level, budgets, rule, assumptions, seams=(), design_ref=""):
    REGISTRY[pid] = dict(module=module, level=level, budgets=budgets, rule=rule,
                         assumptions=list(assumptions), seams=list(seams), design_ref=design_ref)


COMMON_ASSUMPTIONS = [
    "numpy/scipy dense linear algebra (kron, expm, eigh, svd) is the trusted reference",
    "BasisSet.op_mat and BasisSet.sigmaqn define the local matrices / local charges (checked separately by C16)",
    "seeded search samples schedules, histories and faults; a clean batch is evidence, not proof",
    "BLAS pinned to one thread; PYTHONHASHSEED fixed per run (two classes explored)",
]

register(
    "C14", "simlab.profiles.c14", "fault_enumeration",
    budgets={"quick": dict(runs=320, timeout=600), "thorough": dict(runs=1600, timeout=900)},
    rule=("each run = one seeded job/state configuration (runs 0,1 mod 4: job runs; 2 mod 4: chain round-trip / spill sessions; 3 mod 4: tree round trips); for job runs EVERY file-system mutation of the whole job "
          "(open/create, each raw write incl. torn prefixes, rename, remove, mkdir) is a crash point whose on-disk "
          "snapshot is judged, then restarted jobs are run into sampled (thorough: all) snapshots and every crash "
          "point of the restarted job is judged again; round-trip runs dump/load generated states with scheduled "
          "I/O faults.  A case is non-trivial if at least one dump had completed before the crash point (job runs) or "
          "the state has bond dimension > 1 (round-trip runs); distinct = distinct (config, crash index, torn length)"),
    assumptions=COMMON_ASSUMPTIONS + [
        "process death is modelled at system-call granularity with page-cache semantics (what the OS accepted survives); "
        "power loss / missing fsync is not modelled",
        "snapshot engine (copy of the directory taken at each mutation) is cross-validated against a fork+_exit engine on a sample of crash points each run",
    ],
    seams=["SimFS (builtins.open/io.open FileIO subclass, os.rename/replace/remove/unlink/mkdir/makedirs/rmdir, shutil.rmtree)",
           "SimCrash (snapshot engine + fork/_exit engine)", "SimRNG", "SimGC", "SimClock (tdmps.datetime)"],
    design_ref="4/C14",
)

_CHAIN_RULE = ("each run = one seeded session over a population of Mps/MpDm/Mpo objects sharing models; every step is checked "
               "against the dense shadow and all bystanders are re-checked.  A step is non-trivial if it acts on an object "
               "with some bond dimension > 1; distinct = distinct (operation, sub-kind, object kind, bond dimensions, centre, "
               "direction, dtype) tuples")
_CHAIN_SEAMS = ["SimRNG (global numpy stream reseeded per step)", "SimGC (gc disabled; drop/collect are scheduled steps)",
                "gauge schedule (canonicalise/ensure/move_qnidx/compress by 'another holder' between arithmetic steps)"]
for _pid, _ref in (("C03", "4/C03"), ("C04", "4/C04"), ("C05", "4/C05"), ("C06", "4/C06"), ("C07", "4/C07"), ("C13", "4/C13")):
    register(_pid, f"simlab.profiles.{_pid.lower()}", "exploration",
             budgets={"quick": dict(runs=1600, timeout=600), "thorough": dict(runs=8000, timeout=900)},
             rule=_CHAIN_RULE + (" (C05/C06/C13 also run sessions of the tree world, see C11)" if _pid in ("C05", "C06", "C13") else ""), assumptions=COMMON_ASSUMPTIONS, seams=_CHAIN_SEAMS, design_ref=_ref)

register("C15", "simlab.profiles.c15", "exploration",
         budgets={"quick": dict(runs=1600, timeout=600), "thorough": dict(runs=8000, timeout=900)},
         rule=("each run = one seeded expression program (10-45 steps) over a pool of Op/OpSum objects on a generated model; "
               "every result is compared with the matrix expression of the operand matrices and every pool member is re-evaluated "
               "after every step.  non-trivial = result with >= 2 factors/terms; distinct = distinct (operation, sub-kind, scalar type, "
               "result kind, size, model flavour, qn components)"),
         assumptions=COMMON_ASSUMPTIONS + ["no fault kind applies to pure in-memory symbolic algebra: the simulation dimension is program order, aliasing and the in-place += only"],
         seams=["program schedule with aliasing of handles"], design_ref="4/C15")

register("C16", "simlab.profiles.c16", "exploration",
         budgets={"quick": dict(runs=1200, timeout=600), "thorough": dict(runs=6000, timeout=900)},
         rule=("each run = one seeded session over 2-5 SHARED basis instances: op_mat requests for supported symbols, requests for unsupported "
               "symbols (legal ValueError), use inside Model/Mpo, defining-relation checks, and model-builder checks against harness-assembled "
               "Hamiltonians.  non-trivial = basis with >= 2 states / builder with a checked Hamiltonian; distinct = distinct "
               "(operation, basis kind, symbol or relation, size, dvr, shifted-origin) tuples"),
         assumptions=COMMON_ASSUMPTIONS + ["defining relations (ii) and builder checks (iii) are sampled inputs with the strength of seeded random testing; only history independence (i) is a schedule property",
                                           "relations involving products at the truncation edge are compared on the sub-block unaffected by truncation"],
         seams=["shared mutable BasisSet instances (per-instance _recursion_flag) under a schedule containing raising calls"], design_ref="4/C16")

register("C18", "simlab.profiles.c18", "exploration",
         budgets={"quick": dict(runs=1200, timeout=600), "thorough": dict(runs=10000, timeout=900)},
         rule=("each run = 10-30 kernel invocations (expm_krylov / svd_qn / eigh_qn) on generated inputs with scheduled LAPACK failures and "
               "RNG positions.  non-trivial = dimension >= 2 (krylov) or >= 4 entries (svd); distinct = distinct (kernel, size, spectrum/label "
               "pattern, start vector kind, dt kind, block size, mode flags, fault armed, dtype) tuples"),
         assumptions=COMMON_ASSUMPTIONS + ["scipy.linalg.expm / svdvals are the references", "krylov tolerance 2e-6 relative to max(|v|,|exp(dt A)v|) is calibrated on the clean tree (max measured/allowed reported in evidence); the library's own stopping rule is allclose(rtol=1e-5, atol=1e-8) between successive iterates"],
         seams=["SimLAPACK (scipy.linalg.svd as seen from svd_qn; eigh_tridiagonal as seen from krylov)", "SimRNG (basis completion in add_orthonormal_basis)", "block_size knob"],
         design_ref="4/C18")

register("C01", "simlab.profiles.c01", "exploration",
         budgets={"quick": dict(runs=1200, timeout=600, xclass=8), "thorough": dict(runs=6000, timeout=900, xclass=32)},
         rule=_CHAIN_RULE + "; for C01 the sessions are dominated by Mpo construction (three algorithms, offsets) on generated models/term lists and by "
              "sequences of adjacent-site swaps carried by one operator object, interleaved with copies",
         assumptions=COMMON_ASSUMPTIONS + ["the input dimension (models, term lists) is sampled with the strength of seeded random testing; the simulation adds swap histories, "
                                           "copy independence, RNG-stream and hash-seed independence of construction"],
         seams=_CHAIN_SEAMS + ["SimRNG monitor (construction must not consume the global stream)", "PYTHONHASHSEED classes (tensors must be bit-identical across classes)"],
         design_ref="4/C01")

_EVO_RULE = ("each run = one seeded session (6-16 steps) on a generated model: states, Hamiltonian operators (with offsets), bond expansion, gauge moves and "
             "evolve calls under generated EvolveConfig (all schemes/tableaux/solvers/adaptive flags, time-dependent H callbacks, carried configs), each judged "
             "per call against the dense propagator applied to the state before the call.  non-trivial = evolve call producing bond dimension > 1; "
             "distinct = distinct (scheme, sub-scheme, adaptive, real/imag, object kind, sufficient-bond flag, step-size decade, td flag, pairwise oracle, bond dims)")
_EVO_ASSUME = COMMON_ASSUMPTIONS + [
    "scipy.linalg.expm / solve_ivp(DOP853, rtol 1e-12) are the exact references",
    "accuracy bounds are asserted only when the bond limit (and, for one-site TDVP schemes, the input bonds) reach the exact ranks and x=||H|||dt| is in [0.02,0.5]; bounds and their measured/allowed maxima are listed in the evidence",
]
_EVO_SEAMS = _CHAIN_SEAMS + ["SimClock (time-dependent Hamiltonian callback records sample times)", "config history (guess_dt / auto-switched method carried by objects and copies)"]
register("C09", "simlab.profiles.c09", "exploration", budgets={"quick": dict(runs=3200, timeout=600), "thorough": dict(runs=16000, timeout=900)},
         rule=_EVO_RULE, assumptions=_EVO_ASSUME, seams=_EVO_SEAMS, design_ref="4/C09")
register("C10", "simlab.profiles.c10", "exploration", budgets={"quick": dict(runs=3200, timeout=600), "thorough": dict(runs=16000, timeout=900)},
         rule=_EVO_RULE, assumptions=_EVO_ASSUME, seams=_EVO_SEAMS, design_ref="4/C10")

register("C08", "simlab.profiles.c08", "exploration", budgets={"quick": dict(runs=2400, timeout=900), "thorough": dict(runs=10000, timeout=900)},
         rule=("each run = one seeded session on a generated model: guesses (random/product, any gauge), Hamiltonians with offsets, optimize_mps calls with generated "
               "sweep schedules, 1-/2-site, direct/Davidson (cut-off knob forces the iterative branch), 1-4 roots, omega targeting, stacked operators, Davidson stopped "
               "after 1-5 cycles, LAPACK failures in the blocked SVD; every reported value of every sweep is compared with sector-restricted exact diagonalisation. "
               "non-trivial = optimisation returning bond dimension > 1; distinct = distinct (method, algo, roots, omega, iterative, max_cycle, svd-fault, stacked, swapping, bonds, sweeps)"),
         assumptions=COMMON_ASSUMPTIONS + ["numpy eigh of the sector block is the exact reference", "equality at full bond dimension is asserted only for converged fault-free schedules with tolerance 20*max(e_rtol|E|, e_atol)"],
         seams=_CHAIN_SEAMS + ["SimSolver (davidson as seen from mps.gs: max_cycle / max_memory)", "direct-vs-iterative cut-off knob (np.prod proxy in mps.gs)", "SimLAPACK"], design_ref="4/C08")

register("C17", "simlab.profiles.c17", "exploration", budgets={"quick": dict(runs=2400, timeout=600), "thorough": dict(runs=10000, timeout=900)},
         rule=("each run = one seeded session: random symmetric integrals -> qc_model/Mpo vs a harness-assembled fermionic matrix; optimize_mps and two-site TDVP with on-the-fly "
               "swapping driven by the natural criteria or by scheduler-forced decisions (SimSwap), direct try_swap_site sequences; after each the re-ordered operator equals the "
               "original in the new order (fermionic sign map for Jordan-Wigner models), the spectrum/variational bound is unchanged and the state permuted back is consistent. "
               "non-trivial = bond dimension > 1; distinct = distinct (operation, criterion, jw, forced, bonds, sweeps)"),
         assumptions=COMMON_ASSUMPTIONS + ["the fermionic reference uses the harness's own Jordan-Wigner operators (independent of h_qc.py)"],
         seams=_CHAIN_SEAMS + ["SimSwap (calc_vn_entropy as seen from mps.mp: scheduler-forced swap decisions with OFS-S)", "SimLAPACK"], design_ref="4/C17")

_TREE_RULE = ("each run = one seeded session over a population of TTNS/TTNO objects living on several tree topologies built over the SAME "
              "basis-set objects (random parent vectors, multi-basis nodes, dummy nodes, permuted child order, library constructors); every step is "
              "checked against a dense shadow in the reference site order obtained by the harness's own recursive contraction of the node tensors, "
              "all bystanders are re-checked after every step.  A step is non-trivial if it acts on an object with some bond dimension > 1; "
              "distinct = distinct (operation, sub-kind, object kind, tree shape, bond dimensions, dtype) tuples")
for _pid in ("C02", "C11", "C12"):
    register(_pid, f"simlab.profiles.{_pid.lower()}", "exploration",
             budgets={"quick": dict(runs=1600 if _pid == "C12" else 2400, timeout=600), "thorough": dict(runs=10000, timeout=900)},
             rule=_TREE_RULE, assumptions=COMMON_ASSUMPTIONS, seams=_CHAIN_SEAMS + (["ODE budget seam (tn.time_evolution.solve_ivp)"] if _pid == "C12" else []),
             design_ref="4/" + _pid)
