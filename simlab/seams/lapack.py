"""SimLAPACK / SimMem seams.

* scipy.linalg.svd as seen from renormalizer.mps.svd_qn (module attribute `scipy` is rebound to a proxy, so the
  harness's own reference SVDs are untouched): the scheduled call raises LinAlgError on the first driver ("gesdd"),
  so that the library's own gesvd fallback must take over.
* eigh_tridiagonal as seen from renormalizer.lib.krylov.krylov: the scheduled call raises LinAlgError, the dense-eigh
  fallback must take over.
* opt_einsum.contract as seen from renormalizer.mps.oe_contract_wrap (SimMem): the scheduled call raises MemoryError.
"""
import numpy as np
import scipy
import scipy.linalg

import renormalizer.mps.svd_qn as svd_qn_mod
import renormalizer.lib.krylov.krylov as krylov_mod


class _LinalgProxy:
    def __init__(self, seam):
        self._seam = seam

    def __getattr__(self, name):
        return getattr(scipy.linalg, name)

    def svd(self, a, *args, **kw):
        s = self._seam
        s.svd_calls += 1
        if kw.get("lapack_driver", "gesdd") == "gesdd":
            s.gesdd_calls += 1
            if s.fail_svd_at is not None and s.gesdd_calls == s.fail_svd_at or s.fail_svd_every and s.gesdd_calls % s.fail_svd_every == 0:
                s.fired["svd_gesdd_linalgerror"] = s.fired.get("svd_gesdd_linalgerror", 0) + 1
                raise scipy.linalg.LinAlgError("simulated: SVD did not converge")
        else:
            s.fired["svd_gesvd_fallback_taken"] = s.fired.get("svd_gesvd_fallback_taken", 0) + 1
        return scipy.linalg.svd(a, *args, **kw)


class _ScipyProxy:
    def __init__(self, seam):
        self.linalg = _LinalgProxy(seam)

    def __getattr__(self, name):
        return getattr(scipy, name)


class SimLapack:
    def __init__(self):
        self.svd_calls = 0
        self.gesdd_calls = 0
        self.tri_calls = 0
        self.fail_svd_at = None
        self.fail_svd_every = 0
        self.fail_tri_at = None
        self.fail_tri_every = 0
        self.fired = {}
        self.installed = False
        self._orig_tri = krylov_mod.eigh_tridiagonal

    def arm_svd(self, n):
        """fail the n-th gesdd call counted from now (n>=1); None disarms"""
        self.gesdd_calls = 0
        self.fail_svd_at = n

    def arm_tri(self, n):
        self.tri_calls = 0
        self.fail_tri_at = n

    def _tri(self, *a, **kw):
        self.tri_calls += 1
        if (self.fail_tri_at is not None and self.tri_calls == self.fail_tri_at) or (self.fail_tri_every and self.tri_calls % self.fail_tri_every == 0):
            self.fired["eigh_tridiagonal_linalgerror"] = self.fired.get("eigh_tridiagonal_linalgerror", 0) + 1
            raise np.linalg.LinAlgError("simulated: tridiagonal eigensolver failed")
        return self._orig_tri(*a, **kw)

    def install(self):
        if self.installed:
            return
        svd_qn_mod.scipy = _ScipyProxy(self)
        krylov_mod.eigh_tridiagonal = self._tri
        self.installed = True

    def uninstall(self):
        if not self.installed:
            return
        svd_qn_mod.scipy = scipy
        krylov_mod.eigh_tridiagonal = self._orig_tri
        self.installed = False
