"""SimFS: the file-system seam.

All Python-level file access to paths under `root` goes through here:
  * builtins.open / io.open  -> normal buffered stack on top of SimFileIO, whose write()/truncate() are the
    system-call boundary (user-space buffers above it are lost on a crash, exactly as in a real kill);
  * os.rename / replace / remove / unlink / mkdir / rmdir, shutil.rmtree -> counting wrappers.
Every *mutating* call is an event with a global sequence number k.  Before event k is applied the simulator may
  - take a snapshot of the directory (= what a process death right before call k leaves on disk), incl. torn
    variants for writes (a byte prefix of the write reached the OS),
  - inject a fault: raise OSError(errno) before any effect / after a torn prefix, or os._exit (fork engine).
"""
import builtins
import errno
import io
import os
import shutil


class SimCrash(BaseException):
    """Raised by the in-process crash engine; BaseException so that `except Exception` cannot swallow it."""


_real_open = builtins.open
_real = {name: getattr(os, name) for name in ("rename", "replace", "remove", "unlink", "mkdir", "rmdir")}
_real_rmtree = shutil.rmtree
_real_exists = os.path.exists

ERRNOS = {"eio": errno.EIO, "enospc": errno.ENOSPC, "eacces": errno.EACCES, "enoent": errno.ENOENT}


class SimFileIO(io.FileIO):
    def __init__(self, fs, path, mode):
        self._fs = None
        super().__init__(path, mode)
        self._fs = fs
        self._path = path

    def write(self, b):
        fs = self._fs
        if fs is None or not fs.active:
            return super().write(b)
        data = bytes(b)
        act = fs.event("write", self._path, data=data, pos=self.tell())
        if act is not None:
            kind, arg = act
            if kind == "torn":  # a prefix reaches the OS, then the call fails
                n = max(0, min(len(data) - 1, int(arg)))
                if n:
                    super().write(data[:n])
                fs.fired("torn_write")
                raise OSError(errno.EIO, "simulated torn write", self._path)
            if kind == "short":  # legal short write: fewer bytes accepted, caller (BufferedWriter) must retry
                n = max(1, min(len(data), int(arg)))
                fs.fired("short_write")
                return super().write(data[:n])
        return super().write(data)

    def truncate(self, size=None):
        fs = self._fs
        if fs is not None and fs.active:
            fs.event("truncate", self._path, pos=size if size is not None else self.tell())
        return super().truncate(size)


class SimFS:
    def __init__(self, root):
        self.root = os.path.realpath(root)
        self.active = False
        self.k = 0
        self.log = []          # (k, kind, relpath, nbytes)
        self.marks = []        # (k_at_mark, name, payload)
        self.faults = {}       # k -> (kind, arg)     kind in eio/enospc/eacces/enoent/torn/short/exit
        self.path_faults = []  # (predicate(kind, relpath) -> bool, (kind,arg), remaining_count)
        self.read_faults = []  # (predicate(relpath)->bool, errno-name, remaining)
        self.on_event = None   # callback(k, kind, relpath, data, pos) called BEFORE the event is applied
        self.fired_counts = {}
        self.installed = False

    # ---- bookkeeping
    def under(self, path):
        try:
            p = os.path.realpath(os.fspath(path))
        except TypeError:
            return False
        return p == self.root or p.startswith(self.root + os.sep)

    def rel(self, path):
        return os.path.relpath(os.path.realpath(os.fspath(path)), self.root)

    def fired(self, name):
        self.fired_counts[name] = self.fired_counts.get(name, 0) + 1

    def mark(self, name, payload=None):
        self.marks.append((self.k, name, payload))

    def event(self, kind, path, data=None, pos=None):
        k = self.k
        self.k += 1
        rel = self.rel(path)
        self.log.append((k, kind, rel, len(data) if data is not None else 0))
        if self.on_event is not None:
            self.on_event(k, kind, rel, data, pos)
        act = self.faults.get(k)
        if act is None:
            for i, (pred, a, remaining) in enumerate(self.path_faults):
                if remaining > 0 and pred(kind, rel):
                    self.path_faults[i] = (pred, a, remaining - 1)
                    act = a
                    break
        if act is None:
            return None
        fk, arg = act
        if fk == "exit":
            os._exit(137)
        if fk == "crash":
            raise SimCrash(k)
        if fk in ERRNOS:
            self.fired(fk + "_" + kind)
            raise OSError(ERRNOS[fk], f"simulated {fk}", os.fspath(path))
        if fk in ("torn", "short") and kind == "write":
            return act
        return None

    # ---- patched entry points
    def _open(self, file, mode="r", buffering=-1, encoding=None, errors=None, newline=None, closefd=True, opener=None):
        if (not self.active or isinstance(file, int) or opener is not None or not isinstance(file, (str, bytes, os.PathLike))
                or not self.under(file)):
            return _real_open(file, mode, buffering, encoding, errors, newline, closefd, opener)
        path = os.fspath(file)
        modes = set(mode)
        binary = "b" in modes
        creating = "x" in modes
        writing = "w" in modes
        appending = "a" in modes
        updating = "+" in modes
        reading = "r" in modes or not (creating or writing or appending)
        if not (writing or appending or creating or updating):
            for i, (pred, en, remaining) in enumerate(self.read_faults):
                if remaining > 0 and pred(self.rel(path)):
                    self.read_faults[i] = (pred, en, remaining - 1)
                    self.fired(en + "_openread")
                    raise OSError(ERRNOS[en], f"simulated {en}", path)
            return _real_open(file, mode, buffering, encoding, errors, newline, closefd, opener)
        rawmode = ("x" if creating else "") + ("r" if reading and not (writing or appending or creating) else "") + \
                  ("w" if writing else "") + ("a" if appending else "") + ("+" if updating else "")
        if writing or creating or (appending and not _real_exists(path)):
            self.event("open_w" if (writing or creating) else "open_a", path)
        raw = SimFileIO(self, path, rawmode)
        if buffering == 0:
            if not binary:
                raise ValueError("can't have unbuffered text I/O")
            return raw
        bufsize = buffering if buffering > 1 else io.DEFAULT_BUFFER_SIZE
        if updating:
            buf = io.BufferedRandom(raw, bufsize)
        elif writing or appending or creating:
            buf = io.BufferedWriter(raw, bufsize)
        else:
            buf = io.BufferedReader(raw, bufsize)
        if binary:
            return buf
        text = io.TextIOWrapper(buf, encoding, errors, newline, buffering == 1)
        text.mode = mode
        return text

    def _wrap2(self, name):
        real = _real[name]

        def f(src, dst, **kw):
            if self.active and not kw and (self.under(src) or self.under(dst)):
                self.event(name, src)
            return real(src, dst, **kw)
        f.__name__ = name
        return f

    def _wrap1(self, name):
        real = _real[name]

        def f(path, *a, **kw):
            if self.active and "dir_fd" not in kw and isinstance(path, (str, bytes, os.PathLike)) and self.under(path):
                self.event(name, path)
            return real(path, *a, **kw)
        f.__name__ = name
        return f

    def _rmtree(self, path, *a, **kw):
        if self.active and self.under(path):
            self.event("rmtree", path)
            was = self.active
            self.active = False  # one event for the whole tree
            try:
                return _real_rmtree(path, *a, **kw)
            finally:
                self.active = was
        return _real_rmtree(path, *a, **kw)

    def install(self):
        if self.installed:
            return
        builtins.open = self._open
        io.open = self._open
        for n in ("rename", "replace"):
            setattr(os, n, self._wrap2(n))
        for n in ("remove", "unlink", "mkdir", "rmdir"):
            setattr(os, n, self._wrap1(n))
        shutil.rmtree = self._rmtree
        self.installed = True
        self.active = True

    def uninstall(self):
        if not self.installed:
            return
        builtins.open = _real_open
        io.open = _real_open
        for n, f in _real.items():
            setattr(os, n, f)
        shutil.rmtree = _real_rmtree
        self.installed = False
        self.active = False

    def __enter__(self):
        self.install()
        return self

    def __exit__(self, *exc):
        self.uninstall()
        return False


# ---------------------------------------------------------------- snapshots

def read_tree(root):
    """{relpath: bytes} for every regular file below root, plus {"dir/": None} for directories."""
    out = {}
    for dirpath, dirnames, filenames in os.walk(root):
        dirnames.sort()
        for d in dirnames:
            out[os.path.relpath(os.path.join(dirpath, d), root) + "/"] = None
        for fn in sorted(filenames):
            p = os.path.join(dirpath, fn)
            with _real_open(p, "rb") as f:
                out[os.path.relpath(p, root)] = f.read()
    return out


def write_tree(root, tree):
    os.makedirs(root, exist_ok=True)
    for rel in sorted(tree):
        if rel.endswith("/"):
            os.makedirs(os.path.join(root, rel), exist_ok=True)
    for rel, data in tree.items():
        if rel.endswith("/"):
            continue
        p = os.path.join(root, rel)
        os.makedirs(os.path.dirname(p), exist_ok=True)
        with _real_open(p, "wb") as f:
            f.write(data)


def torn(tree, rel, data, pos, n):
    """The tree as it would be if only the first n bytes of `data` written at `pos` reached the file."""
    t = dict(tree)
    old = t.get(rel, b"") or b""
    if pos is None:
        pos = len(old)
    if pos > len(old):
        old = old + b"\x00" * (pos - len(old))
    t[rel] = old[:pos] + data[:n] + old[pos + n:]
    return t
