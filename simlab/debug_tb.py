"""./dbg-style helper: re-run one generated index and print the library traceback of the first exception inside an op.
usage: python -m simlab.debug_tb C11 quick 75"""
import sys, json, importlib, traceback
from simlab import env
env.setup_worker()
from simlab.registry import REGISTRY
import simlab.chain as chain

def main():
    pid, tier, i = sys.argv[1], sys.argv[2], int(sys.argv[3])
    mod = importlib.import_module(REGISTRY[pid]["module"])
    import simlab.core as core
    orig = core.Violation.__init__
    def init(self, *a, **k):
        orig(self, *a, **k)
        if sys.exc_info()[0] is not None:
            traceback.print_exc()
    core.Violation.__init__ = init
    r = mod.generate_and_run(env.run_seed(env.base_seed(), i, pid), i, tier)
    print(r["status"], json.dumps(r.get("violation"))[:2000])
    if len(sys.argv) > 4:
        json.dump(r["plan"], open(sys.argv[4], "w"))
main()
