"""Core vocabulary of the simulator: violations, harness errors, statistics, digests."""
import hashlib
import json
from collections import Counter

import numpy as np


class Violation(Exception):
    """A property invariant failed.  `inv` is a stable invariant id, `sig` the known-findings signature."""

    def __init__(self, inv, detail, sig=None, data=None):
        super().__init__(f"{inv}: {detail}")
        self.inv = inv
        self.detail = detail
        self.sig = sig or inv
        self.data = data or {}


class HarnessError(Exception):
    """The harness (generator / oracle / seam) is wrong or met something it cannot classify.  Exit code 2."""


class Stats:
    def __init__(self):
        self.ops = Counter()
        self.faults = Counter()
        self.probes = Counter()
        self.ratios = {}  # invariant id -> max measured/allowed
        self.sim_time = 0.0
        self.sim_steps = 0

    def ratio(self, inv, measured, allowed):
        if allowed <= 0:
            r = float("inf") if measured > 0 else 0.0
        else:
            r = float(measured) / float(allowed)
        if r > self.ratios.get(inv, 0.0):
            self.ratios[inv] = r
        return r

    def to_dict(self):
        return {"ops": dict(self.ops), "faults": dict(self.faults), "probes": dict(self.probes),
                "ratios": {k: float(v) for k, v in self.ratios.items()},
                "sim_time": float(self.sim_time), "sim_steps": int(self.sim_steps)}


def merge_stats(dst, src):
    for k in ("ops", "faults", "probes"):
        d = dst.setdefault(k, {})
        for kk, v in src.get(k, {}).items():
            d[kk] = d.get(kk, 0) + v
    r = dst.setdefault("ratios", {})
    for kk, v in src.get("ratios", {}).items():
        if v > r.get(kk, 0.0):
            r[kk] = v
    dst["sim_time"] = dst.get("sim_time", 0.0) + src.get("sim_time", 0.0)
    dst["sim_steps"] = dst.get("sim_steps", 0) + src.get("sim_steps", 0)


class Digest:
    """Order-sensitive digest of everything observable in a run (decisions + results)."""

    def __init__(self):
        self._h = hashlib.sha256()

    def add(self, *items):
        for it in items:
            self._h.update(_canon(it))
            self._h.update(b"\x00")

    def hex(self):
        return self._h.hexdigest()[:32]


def _canon(x):
    if isinstance(x, np.ndarray):
        a = np.ascontiguousarray(x)
        return (str(a.dtype) + str(a.shape)).encode() + a.tobytes()
    if isinstance(x, (bytes, bytearray)):
        return bytes(x)
    if isinstance(x, (np.generic,)):
        return repr(x.item()).encode()
    if isinstance(x, (dict, list, tuple)):
        return json.dumps(x, sort_keys=True, default=_json_default).encode()
    return repr(x).encode()


def _json_default(o):
    if isinstance(o, np.ndarray):
        return o.tolist()
    if isinstance(o, np.generic):
        return o.item()
    if isinstance(o, complex):
        return [o.real, o.imag]
    if isinstance(o, (set, frozenset)):
        return sorted(o)
    return repr(o)


def jsonable(o):
    return json.loads(json.dumps(o, default=_json_default))


def relerr(got, ref):
    got = np.asarray(got)
    ref = np.asarray(ref)
    if got.shape != ref.shape:
        return float("inf")
    with np.errstate(all="ignore"):
        scale = max(float(np.linalg.norm(got.ravel())), float(np.linalg.norm(ref.ravel())), 1.0)
        return float(np.linalg.norm((got - ref).ravel())) / scale
