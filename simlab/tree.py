"""Tree world: simulated sessions over tree tensor network states / operators (C02, C11, C12; C05/C06/C13/C14 for trees).

Several BasisTree topologies are built over ONE shared list of BasisSet objects (the reference order is the order of
header["sites"]); states and operators living on different trees are compared through dense vectors / matrices in the
reference order, computed by the harness's own recursive contraction of the node tensors (not by TTNS.todense).
"""
import gc
import itertools
import os

import numpy as np
import scipy.linalg

from simlab.core import Violation, HarnessError, Digest
from simlab.chain import V, rc
from simlab.ref import dense
from simlab.gen import models as gm

from renormalizer.model import Model, Op
from renormalizer.model import basis as ba
from renormalizer.mps import Mps, Mpo
from renormalizer.tn import BasisTree, TTNS, TTNO, TreeNodeBasis
from renormalizer.tn.tree import from_mps as ttns_from_mps
from renormalizer.utils import CompressConfig, CompressCriteria, EvolveConfig, EvolveMethod, Quantity

TOL = 1e-9


# ------------------------------------------------------------------------------------------------ dense contraction

def _contract(node, tn, kind, ref_index):
    """-> (array, labels): array axes follow labels; labels are ('s', k) for states, ('u', k)/('d', k) for operators, plus
    the parent bond as last axis."""
    t = np.asarray(node.tensor)
    nch = len(node.children)
    bsets = tn.tn2bn[node].basis_sets
    labels = [("c", i) for i in range(nch)]
    for b in bsets:
        k = ref_index.get(id(b))
        if kind == "ttns":
            labels.append(("s", k) if k is not None else ("x", id(b)))
        else:
            labels.append(("u", k) if k is not None else ("xu", id(b)))
            labels.append(("d", k) if k is not None else ("xd", id(b)))
    labels.append(("p", 0))
    if len(labels) != t.ndim:
        raise V({"C11", "C02"}, "tree.node_rank", f"node tensor has {t.ndim} axes, topology implies {len(labels)}")
    arr = t
    for i, child in enumerate(node.children):
        sub, sub_labels = _contract(child, tn, kind, ref_index)
        pos = labels.index(("c", i))
        arr = np.tensordot(sub, arr, axes=([-1], [pos]))
        labels = sub_labels[:-1] + [l for j, l in enumerate(labels) if j != pos]
    # drop dummy physical axes (dimension one)
    keep = []
    for j, l in enumerate(labels):
        if l[0] in ("x", "xu", "xd"):
            if arr.shape[j] != 1:
                raise V({"C11", "C02"}, "tree.dummy_dim", "dummy degree of freedom with dimension != 1")
        else:
            keep.append(j)
    arr = arr.reshape([arr.shape[j] for j in keep])
    labels = [labels[j] for j in keep]
    return arr, labels


def dense_tree(tn, kind, ref_index, nref):
    arr, labels = _contract(tn.root, tn, kind, ref_index)
    if arr.shape[-1] != 1:
        raise V({"C11", "C02"}, "tree.root_bond", f"root parent bond has dimension {arr.shape[-1]}")
    arr = arr[..., 0]
    labels = labels[:-1]
    if kind == "ttns":
        ks = sorted(l[1] for l in labels if l[0] == "s")
        order = [labels.index(("s", k)) for k in ks]
        return arr.transpose(order).reshape(-1).astype(complex)
    ks = sorted(l[1] for l in labels if l[0] == "u")
    order = [labels.index(("u", k)) for k in ks] + [labels.index(("d", k)) for k in ks]
    a = arr.transpose(order)
    d = int(np.prod(a.shape[:len(ks)]))
    return a.reshape(d, d).astype(complex)


def tree_rep_magnitude(tn, kind, w):
    """norm of the tree contracted with the absolute values of its node tensors (times |prefactor|)"""
    try:
        saved = [n.tensor for n in tn.node_list]
        try:
            for n in tn.node_list:
                n.tensor = np.abs(np.asarray(n.tensor))
            d = dense_tree(tn, kind, w.ref_index, w.nref)
        finally:
            for n, t in zip(tn.node_list, saved):
                n.tensor = t
        mag = float(np.linalg.norm(d.ravel()))
        return mag * (abs(complex(tn.coeff)) if kind == "ttns" else 1.0)
    except Exception:
        return 0.0


# ------------------------------------------------------------------------------------------------ topologies

def gen_tree_spec(rnd, nb, allow_dummy=True):
    """Random rooted tree over nb basis sets: nodes hold 0..3 basis sets, random parents, random child order."""
    kind = rnd.choice(["random", "random", "random", "linear", "binary", "t3ns", "mctdh2", "mctdh3"])
    perm = list(range(nb))
    if rnd.random() < 0.6:
        rnd.shuffle(perm)
    if kind != "random":
        return {"ctor": kind, "perm": perm, "contract_primitive": rnd.random() < 0.5}
    groups = []
    i = 0
    while i < nb:
        k = min(nb - i, rnd.choice([1, 1, 1, 2, 2, 3]))
        groups.append(perm[i:i + k])
        i += k
    if allow_dummy:
        for _ in range(rnd.choice([0, 0, 1, 2])):
            groups.insert(rnd.randrange(len(groups) + 1), [])
    if len(groups) == 1 and not groups[0]:
        groups.append(perm)
    parents = [-1]
    for j in range(1, len(groups)):
        parents.append(rnd.randrange(j))
    children = {j: [c for c in range(len(groups)) if parents[c] == j] for j in range(len(groups))}
    for j in children:
        rnd.shuffle(children[j])
    return {"ctor": "explicit", "groups": groups, "children": {str(k): v for k, v in children.items()}}


def reorder_children(spec, rnd):
    """Same tree, children listed in another order (results must not depend on it)."""
    if spec["ctor"] != "explicit":
        return None
    s2 = {"ctor": "explicit", "groups": [list(g) for g in spec["groups"]], "children": {k: list(v) for k, v in spec["children"].items()}}
    changed = False
    for k, v in s2["children"].items():
        if len(v) > 1:
            w2 = list(v)
            rnd.shuffle(w2)
            if w2 != v:
                changed = True
            s2["children"][k] = w2
    return s2 if changed else None


def build_tree(spec, basis_objs):
    if spec["ctor"] == "explicit":
        qs = basis_objs[0].sigmaqn.shape[1]
        nodes = []
        for j, g in enumerate(spec["groups"]):
            if g:
                nodes.append(TreeNodeBasis([basis_objs[k] for k in g]))
            elif qs == 1:
                nodes.append(TreeNodeBasis())
            else:
                # documented route for models with several quantum numbers: an explicit dummy basis set with matching labels
                nodes.append(TreeNodeBasis([ba.BasisDummy(("simlab virtual", j), sigmaqn=[[0] * qs])]))
        for k, ch in spec["children"].items():
            for c in ch:
                nodes[int(k)].add_child(nodes[c])
        return BasisTree(nodes[0])
    bl = [basis_objs[k] for k in spec["perm"]]
    if spec["ctor"] == "linear":
        return BasisTree.linear(bl)
    if spec["ctor"] == "binary":
        return BasisTree.binary(bl)
    if spec["ctor"] == "t3ns":
        return BasisTree.t3ns(bl)
    if spec["ctor"] == "mctdh2":
        return BasisTree.binary_mctdh(bl, contract_primitive=spec.get("contract_primitive", False))
    if spec["ctor"] == "mctdh3":
        return BasisTree.ternary_mctdh(bl, contract_primitive=spec.get("contract_primitive", False))
    raise HarnessError(spec["ctor"])


# ------------------------------------------------------------------------------------------------ world

class Entry:
    __slots__ = ("kind", "obj", "shadow", "tid", "tainted", "meta")

    def __init__(self, kind, obj, shadow, tid, meta=None):
        self.kind, self.obj, self.shadow, self.tid = kind, obj, np.asarray(shadow), tid
        self.tainted = False
        self.meta = meta or {}


class TreeWorld:
    def __init__(self, header, stats, scratch=None):
        self.header, self.stats, self.scratch = header, stats, scratch
        self.spec = header["model"]
        self.p_objs = [gm.build_basis(s) for s in self.spec["sites"]]
        self.np_ = len(self.p_objs)
        self.aux = bool(header.get("aux"))
        self.model_p = gm.build_model(self.spec, self.p_objs)
        self.tree_specs, self.trees, self.space, self.partner = [], [], [], []
        self.ctor_violation = None
        self.ref_index = {id(b): k for k, b in enumerate(self.p_objs)}
        if not self.aux:
            self.basis_objs = list(self.p_objs)
            self.model = self.model_p   # reference chain model (site order = reference order)
        else:
            # purification world: states live on trees with an auxiliary (Q) copy of every basis set, operators on the physical
            # tree (partial operators) or on the doubled tree; reference order = all P sets, then all Q sets
            q_objs = []
            for b in self.p_objs:
                bq = b.copy(("Q", b.dofs))
                bq.sigmaqn = np.zeros_like(b.sigmaqn)
                q_objs.append(bq)
            self.basis_objs = list(self.p_objs) + q_objs
            for k, b in enumerate(q_objs):
                self.ref_index[id(b)] = self.np_ + k
            self.model = Model(self.basis_objs, [gm.build_op(t) for t in self.spec.get("ham", [])] or [Op("I", self.p_objs[0].dofs[0])])
        self.nref = len(self.basis_objs)
        for ts in header["trees"]:
            t = build_tree(ts, self.p_objs)
            got = sorted(self.ref_index[id(b)] for b in t.basis_list if id(b) in self.ref_index)
            if got != list(range(self.np_)):
                self.ctor_violation = V({"C02", "C11", "C12"}, "C02.tree_ctor.basis_sets", f"tree constructor {ts['ctor']} does not keep every basis set exactly once: {got}")
            self.trees.append(t)
            self.tree_specs.append(ts)
            self.space.append("P")
            self.partner.append(None)
            if self.aux:
                t2 = t.add_auxiliary_space()
                qdof = {str(b.dofs): self.np_ + k for k, b in enumerate(self.p_objs)}
                for b in t2.basis_list:
                    if id(b) not in self.ref_index and isinstance(b.dof, tuple) and len(b.dof) == 2 and b.dof[0] == "Q":
                        self.ref_index[id(b)] = qdof[str(b.dof[1])]
                got = sorted(self.ref_index[id(b)] for b in t2.basis_list if id(b) in self.ref_index)
                if got != list(range(self.nref)):
                    self.ctor_violation = V({"C02", "C11", "C12"}, "C02.tree_ctor.basis_sets", f"add_auxiliary_space on {ts['ctor']} does not give every P and Q set exactly once: {got}")
                self.trees.append(t2)
                self.tree_specs.append(dict(ts, space="PQ"))
                self.space.append("PQ")
                self.partner.append(len(self.trees) - 2)
        self.state_space = "PQ" if self.aux else "P"
        self.h = {}
        self.nh = 0
        self.step_no = -1
        self.changed, self.created = set(), set()
        self.fault_counts = {}
        self.xdigest = Digest()
        self.cur_op = ""

    def state_tids(self):
        return [t for t in range(len(self.trees)) if self.space[t] == self.state_space]

    def op_on(self, eo, es):
        """matrix of operator entry eo in the space of state entry es (None if they do not fit): same tree, or the physical
        tree of a doubled tree (partial operator = O x 1_Q)"""
        if eo.tid == es.tid:
            return eo.shadow
        if self.partner[es.tid] is not None and self.partner[es.tid] == eo.tid:
            dq = es.shadow.shape[0] // eo.shadow.shape[0]
            return np.kron(eo.shadow, np.eye(dq))
        return None

    def new_handle(self):
        self.nh += 1
        return f"t{self.nh}"

    def dense_of(self, e):
        d = dense_tree(e.obj, e.kind, self.ref_index, self.nref)
        return d * e.obj.coeff if e.kind == "ttns" else d

    def tens(self, e):
        return dense_tree(e.obj, e.kind, self.ref_index, self.nref)

    def put(self, handle, kind, obj, shadow, tid, meta=None):
        self.h[handle] = Entry(kind, obj, shadow, tid, meta)
        self.created.add(handle)

    def handles(self, kind=None, tid=None, pred=None):
        out = []
        for k, e in self.h.items():
            if e.tainted:
                continue
            if kind is not None and e.kind != kind:
                continue
            if tid is not None and e.tid != tid:
                continue
            if pred is not None and not pred(e):
                continue
            out.append(k)
        return out

    def live_ok(self, *hs):
        return all(x in self.h and not self.h[x].tainted for x in hs)

    def check_value(self, handle, props, inv, extra_scale=0.0, tol=TOL, what=""):
        e = self.h[handle]
        got = self.dense_of(e)
        ref = e.shadow
        if got.shape != ref.shape:
            raise V(props, inv, f"{what} {handle}: shape {got.shape} vs {ref.shape}", handle=handle)
        sc = max(float(np.linalg.norm(ref.ravel())), float(np.linalg.norm(got.ravel())), extra_scale, 1e-300)
        err = float(np.linalg.norm((got - ref).ravel()))
        if not err <= tol * sc:
            sc = max(sc, tree_rep_magnitude(e.obj, e.kind, self))   # cancelling representations, see chain.rep_magnitude
        self.stats.ratio(inv, err, tol * sc)
        if not err <= tol * sc:
            raise V(props, inv, f"{what} {handle} ({e.kind} on tree {e.tid}): |got-ref|={err:.3e} scale={sc:.3e}", handle=handle)
        if handle in self.created or handle in self.changed:
            # the reference of an operation is accurate relative to the OPERAND scale; from now on the bystander monitor compares
            # the object with what it actually represented when it was last (documentedly) written
            e.shadow = got

    def check_sector(self, handle):
        e = self.h[handle]
        if e.kind != "ttns" or e.tainted:
            return
        qntot = np.asarray(e.obj.qntot).reshape(-1)
        mask = dense.sector_mask(self.model, qntot)
        v = e.shadow
        out = float(np.linalg.norm(v[~mask])) if (~mask).any() else 0.0
        tot = float(np.linalg.norm(v))
        if out ** 2 > 1e-20 * tot ** 2 + 1e-24:
            raise V({"C06", "C11"} | ({"C12"} if self.cur_op.startswith(("evolve", "lockstep")) else set()), "C06.tree.sector_leak", f"{handle}: weight {out:.3e} (of {tot:.3e}) outside sector {qntot.tolist()} after {self.cur_op}", handle=handle)
        # stored labels: each node's qn labels the charge of its subtree for every parent-bond index
        self._check_labels(e, handle)

    def _check_labels(self, e, handle):
        tn = e.obj
        qs = tn.basis.qn_size
        for node in tn.node_list:
            t = np.asarray(node.tensor)
            q = np.asarray(node.qn).reshape(-1, qs)
            if q.shape[0] != t.shape[-1]:
                raise V({"C06", "C11"}, "C06.tree.labels.length", f"{handle}: node has parent bond {t.shape[-1]} but {q.shape[0]} labels", handle=handle)
            acc = np.zeros([1] * 0 + [qs], dtype=int)
            qbig = np.zeros(qs, dtype=int)
            from renormalizer.mps.svd_qn import add_outer
            for child in node.children:
                qbig = add_outer(qbig, np.asarray(child.qn).reshape(-1, qs))
            for b in tn.tn2bn[node].basis_sets:
                qbig = add_outer(qbig, np.asarray(b.sigmaqn).reshape(b.nbas, qs))
            want = qbig[..., None, :] - q.reshape([1] * (t.ndim - 1) + [q.shape[0], qs])
            bad = np.any(want != 0, axis=-1)
            if bad.shape != t.shape:
                raise V({"C06", "C11"}, "C06.tree.labels.shape", f"{handle}: label grid {bad.shape} vs tensor {t.shape}", handle=handle)
            amax = float(np.abs(t).max()) if t.size else 0.0
            leak = float(np.abs(t[bad]).max()) if bad.any() else 0.0
            if leak > 1e-12 * max(amax, 1e-300) and leak > 1e-14:
                raise V({"C06", "C11"}, "C06.tree.labels.block_mismatch", f"{handle}: tree node has a non-zero block ({leak:.2e}) forbidden by its stored labels after {self.cur_op}", handle=handle)
        if tn.root.parent is not None:
            raise V({"C11", "C13"}, "C11.root_parent_left_behind", f"{handle}: root still attached to a scratch parent after {self.cur_op}", handle=handle)

    def execute(self, step):
        fn = OPS.get(step["op"])
        if fn is None:
            raise HarnessError(f"unknown op {step['op']}")
        if self.ctor_violation is not None:
            raise self.ctor_violation
        self.step_no += 1
        self.cur_op = step["op"]
        self.changed, self.created = set(), set()
        np.random.seed(step.get("rngseed", 0) % (2 ** 32))
        st = fn(self, step)
        if st == "skipped":
            self.stats.ops["skipped"] += 1
            return st
        self.stats.ops[step["op"]] += 1
        for hname in list(self.created) + list(self.changed):
            if hname in self.h:
                self.check_sector(hname)
        for hname in list(self.h):
            e = self.h[hname]
            if e.tainted or hname in self.changed or hname in self.created:
                continue
            # an object that came out of load() must behave like any other object afterwards (C14: "every later operation ...")
            self.check_value(hname, {"C13"} | ({"C14"} if e.meta.get("loaded") else set()), "C13.bystander_or_input_changed",
                             what=f"step {self.step_no} ({self.cur_op}) was not documented to change" + (" the RELOADED object" if e.meta.get("loaded") else ""))
            if e.obj.root.parent is not None:
                raise V({"C11", "C13"}, "C11.root_parent_left_behind", f"{hname}: root attached to a scratch parent after {self.cur_op}")
        return st


OPS = {}
PROPOSERS = {}


def op(name):
    def deco(f):
        OPS[name] = f
        return f
    return deco


def prop(name):
    def deco(f):
        PROPOSERS[name] = f
        return f
    return deco


def nonzero(e):
    return float(np.linalg.norm(e.shadow.ravel())) > 1e-8


# ------------------------------------------------------------------------------------------------ create

@op("ttno")
def op_ttno(w, s):
    tree = w.trees[s["tid"]]
    terms = [gm.build_op(t) for t in s["terms"]]
    partial = w.aux and w.space[s["tid"]] == "P"
    model_ = w.model_p if partial else w.model
    ref = dense.dense_op(model_, terms)
    if float(np.abs(ref).max()) < 1e-14:
        return "skipped"
    rng_before = np.random.get_state()[1].copy()
    try:
        ttno = TTNO(tree, terms, algo=s.get("algo", "Hopcroft-Karp"))
    except Exception as ex:
        raise V({"C02"}, "C02.ttno.raised", f"TTNO({w.tree_specs[s['tid']]['ctor']}, algo={s.get('algo')}): {type(ex).__name__}: {ex}", sig=f"C02.ttno.raised:{type(ex).__name__}")
    if not np.array_equal(rng_before, np.random.get_state()[1]):
        raise V({"C02"}, "C02.ttno.consumes_rng", "TTNO construction drew from the global numpy random stream")
    herm = float(np.abs(ref - ref.conj().T).max()) < 1e-12 * max(float(np.abs(ref).max()), 1e-300)
    w.put(s["out"], "ttno", ttno, ref, s["tid"], {"terms": s["terms"], "hermitian": herm})
    w.check_value(s["out"], {"C02"}, "C02.ttno.dense", extra_scale=float(sum(abs(t.factor) for t in terms)), what=f"TTNO(algo={s.get('algo')})")
    # the library's own todense in reference order must agree too
    lib = np.asarray(ttno.todense(order=w.p_objs if partial else w.basis_objs))
    sc = max(float(np.linalg.norm(ref)), float(sum(abs(t.factor) for t in terms)))
    if float(np.linalg.norm(lib - ref)) > TOL * sc:
        raise V({"C02"}, "C02.ttno.todense_order", f"TTNO.todense(order) differs from the dense reference by {float(np.linalg.norm(lib - ref)):.3e}")
    if s.get("vs_mpo"):
        mpo = Mpo(model_, terms)
        if float(np.linalg.norm(dense.dense_of(mpo) - ref)) > TOL * sc:
            raise V({"C01"}, "C01.mpo.dense", "chain MPO of the same terms differs from the dense reference")
    w.xdigest.add("ttno", *[np.asarray(n.tensor) for n in ttno.node_list])
    return "done"


@op("ttns_random")
def op_ttns_random(w, s):
    if s["tid"] >= len(w.trees) or w.space[s["tid"]] != w.state_space:
        return "skipped"
    tree = w.trees[s["tid"]]
    qntot = s["qntot"]
    if not dense.sector_mask(w.model, qntot).any():
        return "skipped"
    try:
        ttns = TTNS.random(tree, np.array(qntot) if len(qntot) > 1 else int(qntot[0]), s["m"], percent=s.get("percent", 1.0))
    except Exception as ex:
        w.stats.probes["ttns_random_failed:" + type(ex).__name__] += 1
        return "skipped"
    if s.get("complex"):
        ttns = ttns.to_complex()
        ttns.root.tensor = ttns.root.tensor * np.exp(1j * s["phase"])
    if "coeff" in s:
        c = complex(*s["coeff"])
        ttns.coeff = c if s.get("complex") else c.real
    e = Entry("ttns", ttns, np.zeros(1), s["tid"])
    sh = w.dense_of(e)
    w.put(s["out"], "ttns", ttns, sh, s["tid"])
    n = float(np.linalg.norm(w.tens(w.h[s["out"]])))
    if abs(n - 1) > 1e-9:
        raise V({"C06", "C11"}, "C11.random.norm", f"TTNS.random tensors have norm {n}")
    return "done"


@op("ttns_product")
def op_ttns_product(w, s):
    if s["tid"] >= len(w.trees) or w.space[s["tid"]] != w.state_space:
        return "skipped"
    tree = w.trees[s["tid"]]
    cond = {(gm._dof(k) if not isinstance(k, str) else k): v for k, v in s["condition"]}
    try:
        ttns = TTNS(tree, cond)
    except (ValueError, AssertionError):
        return "skipped"
    # reference: product of local unit vectors in reference order
    vec = np.ones(1)
    cd = dict(cond)
    for b in w.basis_objs:
        v = np.zeros(b.nbas)
        idx = 0
        for d in b.dofs:
            if d in cd:
                idx = cd[d]
        v[idx] = 1.0
        vec = np.kron(vec, v)
    w.put(s["out"], "ttns", ttns, vec.astype(complex), s["tid"])
    w.check_value(s["out"], {"C11"}, "C11.product_state", what="TTNS(basis, condition)")
    return "done"


@op("max_entangled")
def op_max_entangled(w, s):
    """utils_eph.max_entangled_ex on a doubled tree: the infinite-temperature purification of the one-exciton space"""
    from renormalizer.tn.utils_eph import max_entangled_ex
    tid = s["tid"]
    if not w.aux or tid >= len(w.trees) or w.space[tid] != "PQ" or w.partner[tid] is None:
        return "skipped"
    if any(not (b.is_electron or b.is_phonon) for b in w.p_objs) or not any(b.is_electron for b in w.p_objs) or w.spec["qn_size"] != 1:
        return "skipped"     # the helper is written for electron-phonon models with one quantum number (exciton number)
    if any(bn.n_sets > 2 for bn in w.trees[tid].node_list):
        return "skipped"     # documented layout: one physical set (+ its auxiliary copy) per node
    try:
        ttns = max_entangled_ex(w.trees[tid])
    except Exception as ex:
        raise V({"C10", "C12"}, "C10.tree.max_entangled.raised", f"max_entangled_ex on {w.tree_specs[tid].get('ctor')}: {type(ex).__name__}: {ex}", sig=f"C10.tree.max_entangled.raised:{type(ex).__name__}")
    dims = [b.nbas for b in w.p_objs]
    n = w.np_
    elec = [k for k, b in enumerate(w.p_objs) if b.is_electron]
    ref = np.zeros(dims + dims)
    ph = [k for k in range(n) if k not in elec]
    for ex_site in elec:
        for js in itertools.product(*[range(dims[k]) for k in ph]):
            idx = [0] * n
            for k, j in zip(ph, js):
                idx[k] = j
            idx[ex_site] = 1
            ref[tuple(idx + idx)] = 1.0
    ref = ref.reshape(-1)
    ref = ref / np.linalg.norm(ref)
    w.put(s["out"], "ttns", ttns, ref.astype(complex), tid, {"thermal": True})
    w.check_value(s["out"], {"C10", "C12", "C11"}, "C10.tree.max_entangled.dense", what="max_entangled_ex")
    w.stats.probes["tree_max_entangled"] += 1
    return "done"


@op("from_mps")
def op_from_mps(w, s):
    """Mps on the reference chain -> linear tree state (C11: converting a chain state to a tree state preserves it)."""
    qntot = s["qntot"]
    if not dense.sector_mask(w.model, qntot).any() or not w.spec.get("ham"):
        return "skipped"     # from_mps also converts the model Hamiltonian: it needs at least one term
    try:
        mps = Mps.random(w.model, np.array(qntot) if len(qntot) > 1 else int(qntot[0]), s["m"], percent=1.0)
    except Exception:
        return "skipped"
    if s.get("complex"):
        mps = mps.to_complex()
        mps[0] = mps[0].array * np.exp(1j * s["phase"])
    if "coeff" in s:
        mps.coeff = complex(*s["coeff"]) if s.get("complex") else s["coeff"][0]
    ref = dense.dense_of(mps)
    basis, ttns, ttno = ttns_from_mps(mps)
    # the new linear tree shares the basis objects: register it as a new topology
    w.trees.append(basis)
    w.tree_specs.append({"ctor": "from_mps"})
    w.space.append(w.state_space)
    w.partner.append(None)
    tid = len(w.trees) - 1
    w.put(s["out"], "ttns", ttns, ref, tid)
    w.check_value(s["out"], {"C11"}, "C11.from_mps", what="from_mps")
    return "done"


# ------------------------------------------------------------------------------------------------ derive

@op("add")
def op_add(w, s):
    a, b = s["a"], s["b"]
    if not w.live_ok(a, b):
        return "skipped"
    ea, eb = w.h[a], w.h[b]
    if ea.kind != "ttns" or eb.kind != "ttns" or ea.tid != eb.tid or not np.all(np.asarray(ea.obj.qntot) == np.asarray(eb.obj.qntot)):
        return "skipped"
    try:
        res = ea.obj + eb.obj if s.get("operator") else ea.obj.add(eb.obj)
    except (Violation, HarnessError):
        raise
    except Exception as ex:
        raise V({"C11"}, "C11.add.raised", f"TTNS.add: {type(ex).__name__}: {ex}", sig=f"C11.add.raised:{type(ex).__name__}")
    ref = ea.shadow + eb.shadow
    sc = float(np.linalg.norm(ea.shadow) + np.linalg.norm(eb.shadow))
    w.put(s["out"], "ttns", res, ref, ea.tid)
    w.check_value(s["out"], {"C11"}, "C11.add.dense", extra_scale=sc, what="a+b")
    deferred(w, s["out"], sc)
    return "done"


@op("scale")
def op_scale(w, s):
    if not w.live_ok(s["a"]) or w.h[s["a"]].kind != "ttns":
        return "skipped"
    e = w.h[s["a"]]
    val = complex(*s["val"])
    if val.imag == 0:
        val = val.real
    if s.get("inplace"):
        e.obj.scale(val, inplace=True)
        e.shadow = e.shadow * val
        w.changed.add(s["a"])
        w.check_value(s["a"], {"C11"}, "C11.scale.dense", what="scale(inplace)")
        return "done"
    res = e.obj.scale(val)
    w.put(s["out"], "ttns", res, e.shadow * val, e.tid)
    w.check_value(s["out"], {"C11"}, "C11.scale.dense", what="scale")
    return "done"


@op("normalize")
def op_normalize(w, s):
    """b = a.copy(); b.normalize(kind): documented to overwrite b only"""
    if not w.live_ok(s["a"]) or w.h[s["a"]].kind != "ttns" or not nonzero(w.h[s["a"]]):
        return "skipped"
    e = w.h[s["a"]]
    kind = s["kind"]
    res = e.obj.copy()
    try:
        res.normalize(kind)
    except Exception as ex:
        raise V({"C11", "C14"} if e.meta.get("loaded") else {"C11"}, "C11.normalize.raised", f"normalize({kind}) on a copy: {type(ex).__name__}: {ex}", sig=f"C11.normalize.raised:{type(ex).__name__}")
    nrm = float(np.linalg.norm(e.shadow))
    c = e.obj.coeff
    if kind == "ttns_only":
        ref = e.shadow / float(np.linalg.norm(w.tens(e)))
    elif kind == "ttns_norm_to_coeff":
        ref = e.shadow
    else:
        ref = e.shadow / nrm
    w.put(s["out"], "ttns", res, ref, e.tid)
    w.check_value(s["out"], {"C11"}, "C11.normalize.dense", what=f"normalize({kind})")
    return "done"


@op("unary")
def op_unary(w, s):
    if not w.live_ok(s["a"]) or w.h[s["a"]].kind != "ttns":
        return "skipped"
    e = w.h[s["a"]]
    which = s["which"]
    res = e.obj.copy() if which == "copy" else e.obj.to_complex()
    w.put(s["out"], "ttns", res, e.shadow.copy(), e.tid)
    w.check_value(s["out"], {"C11", "C13"}, f"C11.{which}.dense", what=which)
    return "done"


@op("apply")
def op_apply(w, s):
    a, b = s["a"], s["b"]
    if not w.live_ok(a, b):
        return "skipped"
    eo, es = w.h[a], w.h[b]
    if eo.kind != "ttno" or es.kind != "ttns" or not nonzero(es):
        return "skipped"
    omat = w.op_on(eo, es)
    if omat is None:
        return "skipped"
    try:
        res = eo.obj @ es.obj if s.get("matmul") else eo.obj.apply(es.obj, canonicalise=bool(s.get("canonicalise")))
    except (Violation, HarnessError):
        raise
    except Exception as ex:
        rn = float(np.linalg.norm(omat @ es.shadow))
        if s.get("canonicalise") and rn < 1e-10 * float(np.linalg.norm(omat, 2) * np.linalg.norm(es.shadow)):
            w.stats.probes["apply_canonicalise_zero_refused"] += 1
            return "skipped"
        raise V({"C11"}, "C11.apply.raised", f"TTNO.apply (result norm {rn:.3e}): {type(ex).__name__}: {ex}", sig=f"C11.apply.raised:{type(ex).__name__}")
    ref = omat @ es.shadow
    sc = float(np.linalg.norm(omat, 2) * np.linalg.norm(es.shadow))
    if omat is not eo.shadow:
        w.stats.probes["partial_operator:apply"] += 1
    w.put(s["out"], "ttns", res, ref, es.tid)
    w.check_value(s["out"], {"C11"}, "C11.apply.dense", extra_scale=sc, what="TTNO @ TTNS" + (" (partial operator)" if omat is not eo.shadow else ""))
    deferred(w, s["out"], sc)
    return "done"


def deferred(w, handle, scale):
    """the result must stay correct when subsequently canonicalised / compressed without truncation"""
    e = w.h[handle]
    if not nonzero(e):
        del w.h[handle]
        w.created.discard(handle)
        return
    w.check_sector(handle)
    c = e.obj.copy()
    opname = w.cur_op
    try:
        c.canonicalise()
        g1 = dense_tree(c, "ttns", w.ref_index, w.nref) * c.coeff
        if len(c.node_list) > 1:
            c.compress(temp_m_trunc=max(c.bond_dims) + 1)
        g2 = dense_tree(c, "ttns", w.ref_index, w.nref) * c.coeff
    except Exception as ex:
        raise V({"C11"}, "C11.deferred.raised", f"result of {opname} cannot be canonicalised/compressed afterwards: {type(ex).__name__}: {ex}", sig=f"C11.deferred.raised:{opname}")
    sc = max(float(np.linalg.norm(e.shadow)), scale, 1e-300)
    for g, what in ((g1, "canonicalise"), (g2, "lossless compress")):
        err = float(np.linalg.norm(g - e.shadow))
        if err > TOL * sc:
            sc = max(sc, tree_rep_magnitude(e.obj, "ttns", w))     # cancelling representations: rounding relative to the stored numbers
        w.stats.ratio("C11.deferred.dense", err, TOL * sc)
        if err > TOL * sc:
            raise V({"C11"}, "C11.deferred.dense", f"result of {opname} changed under subsequent {what}: {err:.3e} (scale {sc:.3e})", sig=f"C11.deferred.dense:{opname}")


# ------------------------------------------------------------------------------------------------ mutate

@op("canonicalise")
def op_canonicalise(w, s):
    if not w.live_ok(s["a"]) or w.h[s["a"]].kind != "ttns" or not nonzero(w.h[s["a"]]):
        return "skipped"
    e = w.h[s["a"]]
    before = list(e.obj.bond_dims)
    w.changed.add(s["a"])
    try:
        e.obj.canonicalise()
    except Exception as ex:
        raise V({"C11"}, "C11.canonicalise.raised", f"TTNS.canonicalise: {type(ex).__name__}: {ex}", sig=f"C11.canonicalise.raised:{type(ex).__name__}")
    w.check_value(s["a"], {"C11"}, "C11.canonicalise.dense", what="canonicalise")
    if any(x > y for x, y in zip(e.obj.bond_dims, before)):
        raise V({"C11"}, "C11.bond_grew", f"canonicalise grew bonds {before} -> {e.obj.bond_dims}")
    for node in e.obj.node_list[1:]:
        t = np.asarray(node.tensor)
        m = t.reshape(-1, t.shape[-1])
        dev = float(np.abs(m.conj().T @ m - np.eye(m.shape[1])).max()) if m.size else 0.0
        w.stats.ratio("C11.isometry", dev, 1e-10)
        if dev > 1e-10:
            raise V({"C11"}, "C11.isometry", f"after canonicalise a non-root node is not an isometry towards its parent (dev {dev:.2e})")
    return "done"


@op("compress")
def op_compress(w, s):
    """canonicalise + compress on a copy; lossless (C11) or truncating (C05 for trees)."""
    if not w.live_ok(s["a"]) or w.h[s["a"]].kind != "ttns" or not nonzero(w.h[s["a"]]):
        return "skipped"
    src = w.h[s["a"]]
    if len(src.obj.node_list) < 2:
        return "skipped"
    obj = src.obj.copy()
    obj.canonicalise()
    orig = dense_tree(obj, "ttns", w.ref_index, w.nref) * obj.coeff
    m = s.get("m")
    lossless = m is None
    before = list(obj.bond_dims)
    try:
        if lossless:
            obj.compress(temp_m_trunc=max(before) + 1)
        elif s.get("via_config"):
            obj.compress_config = CompressConfig(CompressCriteria.fixed, max_bonddim=int(m))
            obj.compress()
        else:
            obj.compress(temp_m_trunc=int(m))
    except Exception as ex:
        raise V({"C11", "C05"}, "C11.compress.raised", f"TTNS.compress(m={m}): {type(ex).__name__}: {ex}", sig=f"C11.compress.raised:{type(ex).__name__}")
    got = dense_tree(obj, "ttns", w.ref_index, w.nref) * obj.coeff
    onorm = float(np.linalg.norm(orig))
    err = float(np.linalg.norm(got - orig))
    if lossless:
        w.stats.ratio("C11.compress_lossless", err, TOL * onorm)
        if err > TOL * onorm:
            raise V({"C11"}, "C11.compress_lossless.dense", f"lossless compress changed the state by {err:.3e}")
        if any(x > y for x, y in zip(obj.bond_dims, before)):
            raise V({"C11"}, "C11.bond_grew", f"compress grew bonds {before} -> {obj.bond_dims}")
    else:
        bonds = list(obj.bond_dims)
        for node, bd in zip(obj.node_list[1:], bonds[1:]):
            if bd > int(m):
                raise V({"C05"}, "C05.tree.bond_limit", f"tree compress(m={m}) left a bond of dimension {bd} (bonds {bonds})")
        if float(np.linalg.norm(got)) > onorm * (1 + 1e-9) + 1e-12:
            raise V({"C05"}, "C05.tree.norm_increased", f"tree compress increased the norm {onorm} -> {float(np.linalg.norm(got))}")
        # every edge of the tree is a bipartition (subtree below the edge | rest): Eckart-Young lower bound and TT-SVD-like upper bound
        tails = []
        psi = orig.reshape([b.nbas for b in w.basis_objs])
        for node in obj.node_list[1:]:
            sub = _subtree_ref_indices(node, obj, w.ref_index)
            if not sub or len(sub) == w.nref:
                continue
            rest = [k for k in range(w.nref) if k not in sub]
            mat = psi.transpose(sub + rest).reshape(int(np.prod([psi.shape[k] for k in sub])), -1)
            sv = scipy.linalg.svdvals(mat)
            mk = np.asarray(node.tensor).shape[-1]
            tails.append(float(np.sqrt(np.sum(sv[mk:] ** 2))) if mk < len(sv) else 0.0)
        lo = max(tails) if tails else 0.0
        hi = float(np.sqrt(np.sum(np.square(tails)))) if tails else 0.0
        slack = 1e-8 * onorm + 1e-12
        w.stats.ratio("C05.tree.err_upper", err, hi * (1 + 1e-8) + slack)
        if err > hi * (1 + 1e-8) + slack:
            raise V({"C05"}, "C05.tree.err_above_discarded_weight", f"tree compress(m={m}): error {err:.4e} > sqrt(sum tail^2) = {hi:.4e}")
        if lo > err * (1 + 1e-8) + slack:
            raise V({"C05"}, "C05.tree.err_below_eckart_young", f"tree compress(m={m}): error {err:.4e} < largest single-edge discarded weight {lo:.4e}")
        if hi > 0:
            w.stats.probes["tree_truncating_compress"] += 1
    w.put(s["out"], "ttns", obj, got, src.tid)
    return "done"


def _subtree_ref_indices(node, tn, ref_index):
    out = []
    stack = [node]
    while stack:
        n = stack.pop()
        for b in tn.tn2bn[n].basis_sets:
            k = ref_index.get(id(b))
            if k is not None:
                out.append(k)
        stack.extend(n.children)
    return sorted(out)


# ------------------------------------------------------------------------------------------------ observe

def _rdm(vec, dims, keep):
    return dense.partial_trace_keep(vec, dims, keep)


def _match(w, got, rho, inv, what, scale):
    got = np.asarray(got)
    if got.shape != rho.shape:
        got = got.reshape(rho.shape) if got.size == rho.size else got
    if got.shape != rho.shape:
        raise V({"C11"}, inv, f"{what}: shape {got.shape} vs {rho.shape}")
    err = min(float(np.linalg.norm(got - rho)), float(np.linalg.norm(got - rho.T)))
    w.stats.ratio(inv, err, 1e-9 * scale)
    if err > 1e-9 * scale:
        raise V({"C11"}, inv, f"{what}: differs from the dense partial trace by {err:.3e} (scale {scale:.3e})")


@op("observe")
def op_observe(w, s):
    a = s["a"]
    if not w.live_ok(a) or w.h[a].kind != "ttns" or not nonzero(w.h[a]):
        return "skipped"
    e = w.h[a]
    tn = e.obj
    which = s["which"]
    w.cur_op = "observe:" + which
    t = w.tens(e)
    dims = [b.nbas for b in w.basis_objs]
    n2 = float(np.vdot(t, t).real)
    if which in ("entropy1", "bond_entropy", "rdm1", "rdm1dof", "rdm2dof") and not (1e-6 <= n2 <= 1e6):
        return "skipped"    # RDMs / entropies are for (roughly) normalised states: absolute tolerances on un-normalised eigenvalues inside the library
    if which == "norm":
        got = tn.ttns_norm if s.get("ttns_norm") else tn.norm
        ref = float(np.sqrt(n2)) if s.get("ttns_norm") else float(np.linalg.norm(e.shadow))
        if abs(got - ref) > 1e-9 * max(ref, 1e-300):
            raise V({"C11"}, "C11.norm", f"norm {got!r} vs dense {ref!r}")
    elif which == "todense":
        order = [w.basis_objs[k] for k in s["order"]] if s.get("order") else None
        got = np.asarray(tn.todense(order)) if order is not None else np.asarray(tn.todense())
        if order is None:
            order_idx = [w.ref_index[id(b)] for b in tn.basis.basis_list if id(b) in w.ref_index]
            got = got.reshape([b.nbas for b in tn.basis.basis_list])
            got = got.reshape([x for x, b in zip(got.shape, tn.basis.basis_list) if id(b) in w.ref_index])
        else:
            order_idx = s["order"]
        ref = t.reshape(dims).transpose(order_idx)
        if float(np.linalg.norm(got.reshape(-1) - ref.reshape(-1))) > 1e-9 * max(np.sqrt(n2), 1e-300):
            raise V({"C11"}, "C11.todense_order", f"TTNS.todense(order={s.get('order')}) differs from the dense reference")
    elif which == "expectation":
        b = s["b"]
        if not w.live_ok(b) or w.h[b].kind != "ttno":
            return "skipped"
        eo = w.h[b]
        omat = w.op_on(eo, e)
        if omat is None:
            return "skipped"
        if omat is not eo.shadow:
            w.stats.probes["partial_operator:expectation"] += 1
        got = tn.expectation(eo.obj)
        ref = complex(np.vdot(t, omat @ t))
        sc = n2 * float(np.linalg.norm(omat, 2))
        if isinstance(got, float) and abs(ref.imag) <= 1.0001e-8:
            ref = complex(ref.real, 0)
        if abs(complex(got) - ref) > 1e-9 * max(sc, abs(ref), 1e-300):
            raise V({"C11", "C07"}, "C11.expectation", f"TTNS.expectation {got!r} vs dense {ref!r}")
        if s.get("twice"):
            # a second, different observable right after the first one (scratch re-parenting must have been undone)
            ident = TTNO.identity(tn.basis)
            got2 = tn.expectation(ident)
            if abs(complex(got2) - n2) > 1e-9 * max(n2, 1e-300):
                raise V({"C11"}, "C11.expectation.second_call", f"second expectation call (identity) gives {got2!r}, dense {n2!r}")
        for obj_ in (tn, eo.obj):
            if obj_.root.parent is not None or obj_.basis.root.parent is not None:
                raise V({"C11", "C13"}, "C11.root_parent_left_behind", "expectation left a participant attached to its scratch parent")
    elif which == "expectation_op":
        terms = [gm.build_op(x) for x in s["terms"]]
        O = dense.dense_op(w.model, terms)
        from renormalizer.model import OpSum
        arg = terms[0] if len(terms) == 1 else OpSum(terms)
        try:
            got = tn.expectation(arg)
        except AssertionError:
            return "skipped"
        ref = complex(np.vdot(t, O @ t))
        if isinstance(got, float) and abs(ref.imag) <= 1.0001e-8:
            ref = complex(ref.real, 0)
        sc = n2 * max(float(np.linalg.norm(O, 2)), 1e-300)
        if abs(complex(got) - ref) > 1e-9 * max(sc, abs(ref), 1e-300):
            raise V({"C11", "C07"}, "C11.expectation", f"TTNS.expectation(Op) {got!r} vs dense {ref!r}")
    elif which in ("rdm1", "entropy1"):
        nodes = tn.node_list
        idx = s.get("idx")
        if idx is not None:
            idx = sorted({i % len(nodes) for i in idx})
        got = tn.calc_1site_rdm(idx) if which == "rdm1" else tn.calc_1site_entropy(idx)
        for i in (idx if idx is not None else range(len(nodes))):
            keep = [w.ref_index[id(b)] for b in tn.tn2bn[nodes[i]].basis_sets if id(b) in w.ref_index]
            if i not in got:
                raise V({"C11"}, "C11.rdm1.keys", f"1-site result misses node {i}: keys {sorted(got)}")
            rho = _rdm(t, dims, keep) if keep else np.array([[n2]])
            if which == "rdm1":
                _match(w, got[i], rho, "C11.rdm1", f"1-site RDM of node {i} (dofs {keep})", max(n2, 1e-300))
            else:
                p = np.linalg.eigvalsh((rho + rho.conj().T) / 2)
                p = np.where(p > 0, p, 0)
                want = dense.vn_entropy_from_probs(p / p.sum()) if p.sum() > 0 else 0.0
                if abs(got[i] - want) > 1e-7:
                    raise V({"C11"}, "C11.entropy1", f"1-site entropy of node {i}: {got[i]!r} vs dense {want!r}")
    elif which == "rdm1dof":
        dofs = [b.dofs[0] for b in w.basis_objs if not b.multi_dof]
        if not dofs:
            return "skipped"
        pick = [dofs[i % len(dofs)] for i in s.get("pick", [0])]
        try:
            got = tn.calc_1dof_rdm(pick if len(pick) > 1 else pick[0])
        except Exception as ex:
            raise V({"C11"}, "C11.rdm1dof.raised", f"calc_1dof_rdm({pick}): {type(ex).__name__}: {ex}", sig=f"C11.rdm1dof.raised:{type(ex).__name__}")
        for d in set(pick):
            k = [i for i, b in enumerate(w.basis_objs) if d in b.dofs][0]
            _match(w, got[d], _rdm(t, dims, [k]), "C11.rdm1dof", f"1-dof RDM of {d}", max(n2, 1e-300))
    elif which == "rdm2dof":
        dofs = [b.dofs[0] for b in w.basis_objs if not b.multi_dof]
        if len(dofs) < 2:
            return "skipped"
        i, j = s["pair"][0] % len(dofs), s["pair"][1] % len(dofs)
        if i == j:
            return "skipped"
        d1, d2 = dofs[i], dofs[j]
        try:
            got = tn.calc_2dof_rdm((d1, d2))
        except Exception as ex:
            raise V({"C11"}, "C11.rdm2dof.raised", f"calc_2dof_rdm(({d1},{d2})): {type(ex).__name__}: {ex}", sig=f"C11.rdm2dof.raised:{type(ex).__name__}")
        k1 = [q for q, b in enumerate(w.basis_objs) if d1 in b.dofs][0]
        k2 = [q for q, b in enumerate(w.basis_objs) if d2 in b.dofs][0]
        val = got[(d1, d2)] if (d1, d2) in got else list(got.values())[0]
        rho = _rdm(t, dims, [k1, k2])
        val = np.asarray(val)
        if val.ndim == 4:
            val = val.reshape(val.shape[0] * val.shape[1], -1)
        _match(w, val, rho, "C11.rdm2dof", f"2-dof RDM of ({d1},{d2})", max(n2, 1e-300))
    elif which == "bond_entropy":
        if len(tn.node_list) < 2:
            return "skipped"
        try:
            got = np.asarray(tn.calc_bond_entropy())
        except Exception as ex:
            raise V({"C11"}, "C11.bond_entropy.raised", f"calc_bond_entropy: {type(ex).__name__}: {ex}", sig=f"C11.bond_entropy.raised:{type(ex).__name__}")
        psi = t.reshape(dims)
        for i, node in enumerate(tn.node_list):
            if node is tn.root:
                continue
            sub = _subtree_ref_indices(node, tn, w.ref_index)
            if not sub or len(sub) == w.nref:
                want = 0.0
            else:
                rest = [k for k in range(w.nref) if k not in sub]
                sv = scipy.linalg.svdvals(psi.transpose(sub + rest).reshape(int(np.prod([dims[k] for k in sub])), -1))
                p = sv ** 2
                want = dense.vn_entropy_from_probs(p / p.sum())
            if abs(got[i] - want) > 1e-7:
                raise V({"C11"}, "C11.bond_entropy", f"bond entropy above node {i}: {got[i]!r} vs dense {want!r}")
    else:
        raise HarnessError(which)
    w.stats.probes["observe:" + which] += 1
    return "done"


# ------------------------------------------------------------------------------------------------ evolution (C12) and persistence

import renormalizer.tn.time_evolution as _te
from simlab.chain_evolve import _ivp_budget, StepBudgetExceeded, CALIBRATE
_orig_tree_solve_ivp = _te.solve_ivp


def _budgeted_tree_solve_ivp(fun, *a, **kw):
    budget = _ivp_budget[0]
    if budget is None:
        return _orig_tree_solve_ivp(fun, *a, **kw)
    n = [0]

    def f2(t, y):
        n[0] += 1
        if n[0] > budget:
            raise StepBudgetExceeded(f"more than {budget} right-hand-side evaluations in one ODE solve")
        return fun(t, y)
    return _orig_tree_solve_ivp(f2, *a, **kw)


_te.solve_ivp = _budgeted_tree_solve_ivp

from simlab.chain_evolve import PS_ORDER_CONST    # second-order splitting away from the exactness condition (calibrated, see DESIGN)
TREE_METHODS = {"vmf": EvolveMethod.tdvp_vmf, "tdrk4": EvolveMethod.prop_and_compress_tdrk4, "ps": EvolveMethod.tdvp_ps, "ps2": EvolveMethod.tdvp_ps2}


def tree_sector_cap_ok(w, e):
    """-> (tangent_full, splitting_exact), see simlab/ref/exactness.py"""
    from simlab.ref import exactness
    tn = e.obj if isinstance(e, Entry) else e
    qs = tn.basis.qn_size
    qntot = np.asarray(tn.qntot).reshape(-1)
    site_q = [np.asarray(b.sigmaqn).reshape(b.nbas, qs) for b in w.basis_objs]
    idx = {id(n): i for i, n in enumerate(tn.node_list)}
    bonds = []
    for node in tn.node_list[1:]:
        sub = _subtree_ref_indices(node, tn, w.ref_index)
        rest = [k for k in range(w.nref) if k not in sub]
        side = set()
        stack = [node]
        while stack:
            n = stack.pop()
            side.add(idx[id(n)])
            stack.extend(n.children)
        bonds.append((side, np.asarray(node.qn).reshape(-1, qs), [site_q[k] for k in sub], [site_q[k] for k in rest]))
    return exactness.splitting_exact(len(tn.node_list), bonds, qntot)


@op("evolve")
def op_evolve(w, s):
    a, hh = s["a"], s["h"]
    if not w.live_ok(a, hh):
        return "skipped"
    e, eh = w.h[a], w.h[hh]
    if e.kind != "ttns" or eh.kind != "ttno" or not eh.meta.get("hermitian") or not nonzero(e) or len(e.obj.node_list) < 2:
        return "skipped"
    H = w.op_on(eh, e)
    if H is None:
        return "skipped"
    if H is not eh.shadow:
        w.stats.probes["partial_operator:evolve"] += 1
    method = s["method"]
    imag = s["dt"][1] != 0
    dt = complex(0, s["dt"][1]) if imag else float(s["dt"][0])
    qntot = np.asarray(e.obj.qntot).reshape(-1)
    mask = dense.sector_mask(w.model, qntot)
    hn = float(np.linalg.norm(H[np.ix_(mask, mask)], 2)) if mask.any() else 0.0
    if hn < 1e-3:
        return "skipped"
    x = hn * abs(dt)
    src = e.obj
    ec = EvolveConfig(TREE_METHODS[method], ivp_rtol=s.get("ivp_rtol", 1e-5), ivp_atol=s.get("ivp_atol", 1e-8))
    src.evolve_config = ec
    m = s.get("m")
    src.compress_config = CompressConfig(CompressCriteria.fixed, max_bonddim=int(m))
    if s.get("per_bond"):
        # a limit per bond (indexed like the node list): what each bond can hold at most, capped by m - still "sufficient" when m is
        md = [int(min(float(m), x)) for x in src.bond_dims_exact] + [int(m)]
        md[0] = max(md[0], 1)
        src.compress_config.max_dims = np.array([max(1, v) for v in md], dtype=int)
    if method == "tdrk4":
        # propagate-and-compress canonicalises H^k psi: a state (nearly) annihilated by H is refused loudly (zero states cannot be canonicalised)
        y = w.tens(e).astype(complex)
        n0 = float(np.linalg.norm(y))
        for _k in range(4):
            y = H @ y
            if float(np.linalg.norm(y)) < 1e-10 * hn ** (_k + 1) * n0:
                w.stats.probes["pc_kernel_state_skipped"] += 1
                return "skipped"
    if s.get("prep") and len(src.node_list) > 1:
        # "another holder" brings the state to its minimal bond dimensions first (value preserving)
        src.canonicalise()
        src.compress(temp_m_trunc=max(src.bond_dims) + 1)
        w.changed.add(a)
        w.check_value(a, {"C11"}, "C11.compress_lossless.dense", what="lossless compress before evolve")
    if method in ("ps", "ps2", "vmf") and not src.is_canonical():
        # documented precondition of the sweep algorithms (check_canonical): "another holder" canonicalises first
        src.canonicalise()
        w.changed.add(a)
    full, split_exact = tree_sector_cap_ok(w, e)
    wc = _well_conditioned(w, e)
    full, split_exact = full and wc, split_exact and wc
    t_before = w.tens(e)
    coeff = src.coeff
    w.cur_op = f"evolve:{method}"
    try:
        res = src.evolve(eh.obj, dt, normalize=s.get("normalize", True))
    except (Violation, HarnessError):
        raise
    except StepBudgetExceeded:
        w.stats.probes["ivp_budget_exceeded"] += 1
        return "skipped"
    except Exception as ex:
        if method == "vmf" and type(ex).__name__ in ("ValueError", "FloatingPointError", "LinAlgError") and not _well_conditioned(w, e):
            # overflow in the regularised inverse of a (nearly) singular overlap matrix (redundant bonds, e.g. after a direct sum):
            # loud refusal of an ill-conditioned mean-field problem, as for the chain implementation
            w.stats.probes["mean_field_illconditioned_refused"] += 1
            w.changed.add(a)
            w.check_value(a, {"C13"}, "C13.bystander_or_input_changed", what="input of a refused evolve call")
            return "skipped"
        raise V({"C12"}, "C12.evolve.raised", f"TTNS.evolve({method}, dt={dt}): {type(ex).__name__}: {ex}", sig=f"C12.evolve.raised:{method}:{'imag' if imag else 'real'}:{type(ex).__name__}")
    if res is src:
        # remember what the input represented before the call: the shadow of `a` is still the old value, so the
        # bystander monitor reports the disturbance; report it here with a precise signature
        raise V({"C13", "C12"}, "C13.tree.evolve_returned_input", f"TTNS.evolve({method}, {'imaginary' if imag else 'real'} time) returned (and modified) its input object",
                sig=f"C13.tree.evolve_returned_input:{method}:{'imag' if imag else 'real'}")
    with np.errstate(all="ignore"):
        U = scipy.linalg.expm(-1j * dt * H)
    if not np.all(np.isfinite(U)):
        return "skipped"
    ut = U @ t_before
    if s.get("normalize", True):
        nrm = float(np.linalg.norm(ut))
        expected = ut / nrm * ((coeff / abs(coeff)) if imag else coeff)
    else:
        expected = ut * coeff
    e_tmp = Entry("ttns", res, np.zeros(1), e.tid)
    got = w.dense_of(e_tmp)
    w.put(s["out"], "ttns", res, got, e.tid, {"evolved": True})
    err = float(np.linalg.norm(got - expected)) / max(float(np.linalg.norm(expected)), 1e-300)
    key = f"{method}:{'imag' if imag else 'real'}"
    w.stats.probes["tree_evolve:" + key] += 1
    limit_ok = all(bd <= int(m) for bd in res.bond_dims[1:]) if method in ("tdrk4", "ps2") else True
    if not limit_ok:
        raise V({"C12", "C05"}, "C12.bond_limit", f"TTNS.evolve({method}) bonds {res.bond_dims} exceed the limit {m}")
    w.last_evolve = {"key": key, "x": x, "full": full}
    if 0.02 <= x <= 0.5:
        bound = None
        if method == "tdrk4" and int(m) >= max(src.bond_dims_exact[1:] + [1]):
            bound = (2 if imag else 1) * 6.0 * x ** 5 / 120 + 2e-9
        elif method == "ps" and full:
            # away from the exactness condition: second-order (symmetric) splitting, local error O(x^3)
            cps = PS_ORDER_CONST
            bound = 1e-8 if split_exact else cps * x ** 3 + 1e-8
            key += ":exact" if split_exact else ":order"
            if not split_exact and _min_schmidt_ratio(w, e) < x:
                # pre-asymptotic regime (step larger than the smallest Schmidt weight): only the robust O(x^2) local bound holds
                # (measured 0.023 x^2 at sigma_min/sigma_max = 0.0014, 6.5e-4 x^2 at 0.009, both with ratio 4 per halving)
                bound = cps * x ** 2 + 1e-8
                key += ":robust"
        elif method == "ps2" and full and int(m) >= max(src.bond_dims[1:]):
            cps = max(PS_ORDER_CONST, 0.15 * len(src.node_list))
            bound = 1e-8 if split_exact else cps * x ** 3 + 1e-8
            key += ":exact" if split_exact else ":order"
            if not split_exact and _min_schmidt_ratio(w, e) < x:
                bound = cps * x ** 2 + 1e-8      # (same pre-asymptotic regime as for the one-site scheme)
                key += ":robust"
        elif method == "vmf" and full:
            sv_ok = _well_conditioned(w, e)
            # (the ODE integrator has an absolute tolerance on the raw tensors: states of ordinary magnitude only)
            if sv_ok and 1e-2 <= float(np.linalg.norm(t_before)) <= 1e2:
                # (errors of the ODE integrator are amplified by the inverse of the smallest kept Schmidt value: the mean-field equations
                # contain the inverse overlap / reduced density matrix)
                amp = max(1.0, 0.5 / max(_min_schmidt_ratio(w, e), 1e-3))
                bound = (20 * ec.ivp_rtol * max(x, 0.05) + 20 * ec.ivp_atol + 3 * np.sqrt(ec.reg_epsilon)) * amp
        if bound is not None:
            w.stats.ratio("C12.layer2:" + key, err, bound)
            if err > bound and not CALIBRATE:
                raise V({"C12"}, "C12.layer2", f"TTNS.evolve {key} on tree {w.tree_specs[e.tid].get('ctor')} x={x:.3g}: error vs exact propagator {err:.3e} > {bound:.3e}",
                        sig=f"C12.layer2:{key}")
    if method == "ps" and full and not split_exact and 0.02 <= x <= 0.25 and err > 2e-6 and float(np.linalg.norm(t_before)) > 0:
        # ---------- order probe: the scheme is a SYMMETRIC composition (forward half sweep, adjoint half sweep), so the one-step
        # error is O(tau^3): halving the step divides it by about 8 (a first-order composition gives about 4).  Two halvings are
        # taken from the same (unchanged) input; judged only above the rounding / Krylov floor and only when BOTH ratios agree.
        errs = [err]
        try:
            for f in (0.5, 0.25):
                r2 = src.evolve(eh.obj, dt * f, normalize=s.get("normalize", True))
                with np.errstate(all="ignore"):
                    u2 = scipy.linalg.expm(-1j * dt * f * H) @ t_before
                if s.get("normalize", True):
                    ex2 = u2 / float(np.linalg.norm(u2)) * ((coeff / abs(coeff)) if imag else coeff)
                else:
                    ex2 = u2 * coeff
                g2 = w.dense_of(Entry("ttns", r2, np.zeros(1), e.tid))
                errs.append(float(np.linalg.norm(g2 - ex2)) / max(float(np.linalg.norm(ex2)), 1e-300))
        except (Violation, HarnessError):
            raise
        except Exception as ex:
            raise V({"C12"}, "C12.evolve.raised", f"TTNS.evolve({method}, dt={dt}) repeated with a shorter step: {type(ex).__name__}: {ex}",
                    sig=f"C12.evolve.raised:{method}:{'imag' if imag else 'real'}:{type(ex).__name__}")
        # (the O(tau^3) local error is the asymptotic regime tau*|H| << smallest Schmidt weight: for larger steps a badly conditioned
        # direction contributes a term ~ sigma_min * x^2 - measured 6.5e-4 x^2 at sigma_min/sigma_max = 0.009 - so the probe is
        # restricted to states whose smallest kept Schmidt ratio is at least the largest step)
        if errs[2] > 3e-7 and _min_schmidt_ratio(w, e) >= x:
            r1, r2_ = errs[0] / errs[1], errs[1] / errs[2]
            w.stats.probes["tree_ps_order_probe"] += 1
            w.stats.ratio("C12.ps_order_probe", 5.0, max(r1, r2_))
            if max(r1, r2_) < 5.0 and not CALIBRATE:
                raise V({"C12"}, "C12.ps_order", f"TTNS.evolve ps ({'imaginary' if imag else 'real'} time) on tree {w.tree_specs[e.tid].get('ctor')}: one-step errors "
                        f"{errs[0]:.3e}, {errs[1]:.3e}, {errs[2]:.3e} for tau, tau/2, tau/4 (x={x:.3g}) fall by {r1:.2f} and {r2_:.2f} per halving: "
                        f"first-order behaviour, the scheme is a second-order symmetric splitting (about 8)", sig=f"C12.ps_order:{'imag' if imag else 'real'}")
    if method == "ps" and not imag and not s.get("normalize", True):
        t_after = w.tens(w.h[s["out"]])
        n0, n1 = float(np.linalg.norm(t_before)), float(np.linalg.norm(t_after))
        tol = 1e-8
        w.stats.ratio("C12.ps.norm", abs(n1 - n0) / n0, tol)
        if abs(n1 - n0) > tol * n0:
            raise V({"C12"}, "C12.ps.norm", f"tree one-site TDVP-PS changed the norm {n0!r} -> {n1!r}")
        e0 = float(np.real(np.vdot(t_before, H @ t_before))) / n0 ** 2
        e1 = float(np.real(np.vdot(t_after, H @ t_after))) / n1 ** 2
        if abs(e1 - e0) > 1e-8 * max(hn, 1e-300):
            raise V({"C12"}, "C12.ps.energy", f"tree one-site TDVP-PS changed the energy {e0!r} -> {e1!r}")
    return "done"


def _min_schmidt_ratio(w, e):
    """smallest (kept singular value / largest) over all edges; 0.0 for redundant bonds"""
    tn = e.obj
    dims = [b.nbas for b in w.basis_objs]
    psi = e.shadow.reshape(dims)
    worst = 1.0
    for node in tn.node_list[1:]:
        sub = _subtree_ref_indices(node, tn, w.ref_index)
        if not sub or len(sub) == w.nref:
            continue
        rest = [k for k in range(w.nref) if k not in sub]
        sv = scipy.linalg.svdvals(psi.transpose(sub + rest).reshape(int(np.prod([dims[k] for k in sub])), -1))
        k = np.asarray(node.tensor).shape[-1]
        if k > len(sv):
            return 0.0
        if k and sv[0] > 0:
            worst = min(worst, float(sv[k - 1] / sv[0]))
    return worst


def _well_conditioned(w, e):
    tn = e.obj
    dims = [b.nbas for b in w.basis_objs]
    psi = e.shadow.reshape(dims)
    for node in tn.node_list[1:]:
        sub = _subtree_ref_indices(node, tn, w.ref_index)
        if not sub or len(sub) == w.nref:
            continue
        rest = [k for k in range(w.nref) if k not in sub]
        sv = scipy.linalg.svdvals(psi.transpose(sub + rest).reshape(int(np.prod([dims[k] for k in sub])), -1))
        k = np.asarray(node.tensor).shape[-1]
        if k > len(sv):
            return False      # redundant bond (e.g. after a direct sum): the overlap matrix of the mean-field equations is singular
        if k and sv[0] > 0 and sv[k - 1] / sv[0] < 1e-3:
            return False
    return True


@op("expand")
def op_expand(w, s):
    """expand_bond_dimension_general(ttns, hint_mpo=ttno): returns a new state with filled bonds; the represented state moves by ~1e-10 only
    and the input is left alone (bystander monitor)."""
    from renormalizer.mps.mps import expand_bond_dimension_general
    a, hh = s["a"], s["h"]
    if not w.live_ok(a, hh):
        return "skipped"
    e, eh = w.h[a], w.h[hh]
    if e.kind != "ttns" or eh.kind != "ttno" or eh.tid != e.tid or not eh.meta.get("hermitian") or not nonzero(e) or len(e.obj.node_list) < 2:
        return "skipped"
    if float(np.linalg.norm(eh.shadow @ e.shadow)) < 1e-8 * float(np.linalg.norm(eh.shadow, 2) * np.linalg.norm(e.shadow)):
        return "skipped"
    src = e.obj
    if not src.is_canonical():
        return "skipped"
    src.compress_config = CompressConfig(CompressCriteria.fixed, max_bonddim=int(s["m"]))
    bonds_in = list(src.bond_dims)
    from simlab.chain_evolve import expand_budget
    try:
        with expand_budget():
            res = expand_bond_dimension_general(src, hint_mpo=eh.obj)
    except StepBudgetExceeded:
        w.stats.probes["expand_loop_budget_exceeded"] += 1
        w.changed.add(a)
        w.check_value(a, {"C13"}, "C13.bystander_or_input_changed", what="input of an abandoned expand call")
        return "skipped"
    except Exception as ex:
        w.stats.probes["tree_expand_failed:" + type(ex).__name__] += 1
        w.changed.add(a)
        w.check_value(a, {"C13"}, "C13.bystander_or_input_changed", what="input of a refused expand call")
        return "skipped"
    if list(src.bond_dims) != bonds_in:
        raise V({"C13", "C12"}, "C13.tree.expand.input_truncated", f"expand_bond_dimension_general changed the bonds of its input {bonds_in} -> {list(src.bond_dims)}")
    tmp = Entry("ttns", res, np.zeros(1), e.tid)
    got = w.dense_of(tmp)
    w.put(s["out"], "ttns", res, got, e.tid, {"expanded": True})
    err = float(np.linalg.norm(got - e.shadow))
    sc = float(np.linalg.norm(e.shadow))
    # the expander is added with weight coef = 1e-10; one branch of the library adds H|psi> without normalising it, so the admixture
    # scales with ||H||: no property promises more than "about coef x max(1, ||H||)"
    sc = sc * max(1.0, float(np.linalg.norm(eh.shadow, 2)))
    w.stats.ratio("C12.tree.expand", err, 1e-8 * sc)
    if err > 1e-8 * sc:
        raise V({"C12", "C13"}, "C12.tree.expand.moved_state", f"expand_bond_dimension_general moved the state by {err:.3e} (norm {sc:.3e})")
    w.stats.probes["tree_expand"] += 1
    return "done"


@op("optimize")
def op_optimize(w, s):
    """C08 on trees: two-site DMRG sweeps; every reported energy is variational, the state stays normalised and in its sector."""
    from renormalizer.tn.gs import optimize_ttns
    a, hh = s["a"], s["h"]
    if not w.live_ok(a, hh):
        return "skipped"
    e, eh = w.h[a], w.h[hh]
    if e.kind != "ttns" or eh.kind != "ttno" or not eh.meta.get("hermitian") or not nonzero(e) or len(e.obj.node_list) < 2:
        return "skipped"
    H = w.op_on(eh, e)
    if H is None:
        return "skipped"
    if H is not eh.shadow:
        return "skipped"     # the optimiser's preconditioner needs the diagonal of the operator on all indices (see hop_expr2)
    if np.iscomplexobj(np.asarray(e.obj.root.tensor)):
        return "skipped"
    qntot = np.asarray(e.obj.qntot).reshape(-1)
    mask = dense.sector_mask(w.model, qntot)
    Hs = H[np.ix_(mask, mask)].real
    hn = float(np.linalg.norm(Hs, 2)) if Hs.size else 0.0
    if hn < 1e-6:
        return "skipped"
    evals, evecs = np.linalg.eigh((Hs + Hs.T) / 2)
    full, _ = tree_sector_cap_ok(w, e)
    # an iterative eigensolver cannot leave the invariant subspace of its start vector (undeclared symmetries of H):
    # equality with the exact ground energy is only demanded when the start state overlaps with the ground space
    v0 = w.tens(e)[mask]
    g = evecs[:, evals <= evals[0] + 1e-9 * max(hn, 1.0)]
    ov = float(np.linalg.norm(g.conj().T @ v0)) / max(float(np.linalg.norm(v0)), 1e-300)
    src = e.obj.copy()
    src.canonicalise()
    src.normalize("ttns_and_coeff")
    src.optimize_config.algo = s["algo"]
    src.optimize_config.nroots = 1
    proc = [[int(m), float(pc)] for m, pc in s["procedure"]]
    w.cur_op = "optimize:" + s["algo"]
    try:
        e_list = optimize_ttns(src, eh.obj, proc)
    except (Violation, HarnessError):
        raise
    except Exception as ex:
        if s["algo"] == "arpack" and type(ex).__name__ in ("TypeError", "ArpackError", "ArpackNoConvergence"):
            # scipy's ARPACK wrapper refuses local problems of dimension <= number of roots and zero start vectors: loud refusal of the back end
            w.stats.probes["arpack_refused:" + type(ex).__name__] += 1
            return "skipped"
        raise V({"C08"}, "C08.tree.raised", f"optimize_ttns({s['algo']}): {type(ex).__name__}: {ex}", sig=f"C08.tree.raised:{s['algo']}:{type(ex).__name__}")
    tol = (1e-9 if s["algo"] == "direct" else 1e-6) * hn
    for k, en in enumerate(e_list):
        w.stats.ratio("C08.tree.variational", max(evals[0] - float(en), 0.0), tol)
        if float(en) < evals[0] - tol:
            raise V({"C08"}, "C08.tree.below_exact", f"sweep {k}: reported energy {float(en)!r} below the exact ground energy {evals[0]!r} of the sector (algo {s['algo']})", sig=f"C08.tree.below_exact:{s['algo']}")
    tmp = Entry("ttns", src, np.zeros(1), e.tid)
    vec = w.dense_of(tmp)
    w.put(s["out"], "ttns", src, vec, e.tid)
    nrm = float(np.linalg.norm(vec))
    if abs(nrm - 1) > 1e-8:
        raise V({"C08"}, "C08.tree.norm", f"optimised tree state has norm {nrm!r}")
    en_state = float(np.real(np.vdot(vec, H @ vec))) / nrm ** 2
    caps_ok = all(int(m) >= max(src.bond_dims_exact[1:] + [1]) or int(m) >= 64 for m, _ in proc)
    if caps_ok and abs(en_state - float(e_list[-1])) > 10 * tol + 1e-12:
        raise V({"C08"}, "C08.tree.energy_mismatch", f"last reported energy {float(e_list[-1])!r} but the returned state has energy {en_state!r} (algo {s['algo']}, procedure {proc})", sig=f"C08.tree.energy_mismatch:{s['algo']}")
    conv = len(e_list) >= 3 and abs(float(e_list[-1]) - float(e_list[-2])) <= tol
    w.stats.probes["tree_optimize:" + s["algo"] + (":full" if full and caps_ok else "")] += 1
    # (iterative solvers stop on ABSOLUTE residual / energy-change thresholds: equality is only demanded for operators of ordinary size)
    if full and caps_ok and conv and proc[-1][1] == 0 and (s["algo"] == "direct" or (ov > 1e-3 and hn >= 0.1)):
        gap = float(e_list[-1]) - evals[0]
        w.stats.ratio("C08.tree.exact_at_full_rank", gap, 10 * tol)
        if gap > 10 * tol and not CALIBRATE:
            raise V({"C08"}, "C08.tree.not_exact_at_full_rank", f"converged energy {float(e_list[-1])!r} above the exact {evals[0]!r} although every bond is at its cap (algo {s['algo']})", sig=f"C08.tree.not_exact_at_full_rank:{s['algo']}")
    return "done"


@op("lockstep")
def op_lockstep(w, s):
    """C12: a linear tree and the chain implementation, stepped side by side from the same state with the same scheme."""
    from simlab.chain_evolve import make_config
    qntot = s["qntot"]
    mask = dense.sector_mask(w.model, qntot)
    if not mask.any() or not w.spec.get("ham") or w.nref < 2:
        return "skipped"
    terms = [gm.build_op(t) for t in w.spec["ham"]]
    H = dense.dense_op(w.model, terms)
    hn = float(np.linalg.norm(H[np.ix_(mask, mask)], 2))
    if hn < 1e-3 or float(np.abs(H - H.conj().T).max()) > 1e-12 * hn:
        return "skipped"
    try:
        mps = Mps.random(w.model, np.array(qntot) if len(qntot) > 1 else int(qntot[0]), 200, percent=1.0)
    except Exception:
        return "skipped"
    if "coeff" in s:
        mps.coeff = s["coeff"]
    method = s["method"]
    imag = bool(s.get("imag"))
    x = s["x"]
    dt = complex(0, -x / hn) if imag else x / hn * s.get("sign", 1)
    mpo = Mpo(w.model, terms)
    basis, ttns, ttno = ttns_from_mps(mps)
    cfg = {"method": method, "ivp_rtol": 1e-5, "ivp_atol": 1e-8, "force_ovlp": False}
    if not imag and dt < 0:
        cfg["guess_dt"] = [-0.1, 0.0]
    mps.evolve_config = make_config(cfg)
    mps.compress_config = CompressConfig(CompressCriteria.fixed, max_bonddim=200)
    ttns.evolve_config = EvolveConfig(TREE_METHODS[method], ivp_rtol=1e-5, ivp_atol=1e-8)
    ttns.compress_config = CompressConfig(CompressCriteria.fixed, max_bonddim=200)
    per_step = {"ps": 2e-8, "ps2": 2e-8, "tdrk4": 2e-8, "vmf": 2 * (20 * 1e-5 * max(x, 0.05) + 20 * 1e-8 + 3e-5)}[method]
    key = f"{method}:{'imag' if imag else 'real'}"
    if method in ("ps", "ps2"):
        full, split_exact = tree_sector_cap_ok(w, ttns)
        if not full:
            return "skipped"
        if not split_exact:
            # the two implementations sweep in different orders: away from the exactness condition they agree to the scheme's order only
            per_step = 2 * PS_ORDER_CONST * x ** 3 + 2e-8
            key += ":order"
    w.cur_op = "lockstep:" + key
    cur = dense.dense_of(mps)
    with np.errstate(all="ignore"):
        U = scipy.linalg.expm(-1j * dt * H)
    for k in range(s["nsteps"]):
        try:
            mps = mps.evolve(mpo, dt)
        except StepBudgetExceeded:
            return "done"
        except Exception as ex:
            raise V({"C09", "C10"}, "C09.evolve.raised", f"chain {key}: {type(ex).__name__}: {ex}", sig=f"C09.evolve.raised:lockstep:{key}")
        try:
            ttns = ttns.evolve(ttno, dt)
        except StepBudgetExceeded:
            return "done"
        except Exception as ex:
            raise V({"C12"}, "C12.evolve.raised", f"TTNS.evolve({key}) on the linear tree of from_mps: {type(ex).__name__}: {ex}", sig=f"C12.evolve.raised:lockstep:{key}:{type(ex).__name__}")
        a = dense.dense_of(mps)
        b = dense_tree(ttns, "ttns", w.ref_index, w.nref) * ttns.coeff
        cur = U @ cur
        if imag:
            cur = cur / np.linalg.norm(cur) * np.linalg.norm(a)
        sc = max(float(np.linalg.norm(a)), 1e-300)
        err = float(np.linalg.norm(a - b)) / sc
        w.stats.ratio("C12.lockstep:" + key, err, per_step * (k + 1))
        if err > per_step * (k + 1) and not CALIBRATE:
            ec_ = float(np.linalg.norm(a - cur)) / sc
            et_ = float(np.linalg.norm(b - cur)) / sc
            raise V({"C12"}, "C12.lockstep", f"{key} x={x:.3g} step {k + 1}: chain and linear tree differ by {err:.3e} (allowed {per_step * (k + 1):.1e}); vs exact: chain {ec_:.2e}, tree {et_:.2e}",
                    sig=f"C12.lockstep:{key}")
    w.stats.probes["lockstep:" + key] += 1
    return "done"


@op("dump_load")
def op_dump_load(w, s):
    if not w.live_ok(s["a"]) or w.h[s["a"]].kind != "ttns" or not w.scratch:
        return "skipped"
    e = w.h[s["a"]]
    path = os.path.join(w.scratch, f"tt_{w.step_no}.npz")
    from simlab.seams.fs import SimFS
    from simlab.chain_io import _arm, _account
    fs = SimFS(w.scratch)
    _arm(fs, s.get("faults"))
    extra = ["user_tag"] if s.get("other_attrs") else None
    if extra:
        e.obj.user_tag = np.array([3.5, -1.25])      # a user attribute stored along with the state (documented other_attrs)
    with fs:
        e.obj.dump(path, other_attrs=extra) if extra else e.obj.dump(path)     # the library logs and swallows a failing dump
    fired = _account(w, fs)
    w.xdigest.add("dump", [(k, kind, n) for (k, kind, rel, n) in fs.log])
    try:
        res = TTNS.load(e.obj.basis, path, other_attrs=extra) if extra else TTNS.load(e.obj.basis, path)
        if extra and not np.array_equal(np.asarray(res.user_tag), np.array([3.5, -1.25])):
            raise V({"C14"}, "C14.tree.roundtrip", "user attribute given in other_attrs was not restored", sig="C14.tree.roundtrip:other_attrs")
    except Exception as ex:
        if fired:
            w.stats.probes["load_refused_after_faulty_dump"] += 1
            return "done"
        raise V({"C14"}, "C14.tree.load_raised", f"TTNS.load after dump: {type(ex).__name__}: {ex}", sig=f"C14.tree.load_raised:{type(ex).__name__}")
    for n1, n2 in zip(e.obj.node_list, res.node_list):
        if not np.array_equal(np.asarray(n1.tensor), np.asarray(n2.tensor)) or not np.array_equal(np.asarray(n1.qn), np.asarray(n2.qn)):
            raise V({"C14"}, "C14.tree.roundtrip", "TTNS dump/load changed tensors or quantum numbers")
    if complex(res.coeff) != complex(e.obj.coeff):
        raise V({"C14"}, "C14.tree.roundtrip", f"TTNS dump/load changed the prefactor {e.obj.coeff!r} -> {res.coeff!r}")
    w.put(s["out"], "ttns", res, e.shadow.copy(), e.tid, {"loaded": True})
    w.check_value(s["out"], {"C14"}, "C14.tree.roundtrip.value")
    # every later operation gives identical results on the reloaded object
    if not nonzero(e):
        return "done"

    def cont(obj):
        o = obj.copy()
        o.canonicalise()
        if len(o.node_list) > 1:
            o.compress(temp_m_trunc=max(1, max(o.bond_dims) // 2))
        o2 = obj.copy().scale(0.5)
        # (values, not tensors: the gauge inside degenerate subspaces is free)
        return [dense_tree(o, "ttns", w.ref_index, w.nref) * o.coeff, np.asarray(o.bond_dims), np.asarray(obj.norm),
                dense_tree(o2 + obj, "ttns", w.ref_index, w.nref)]
    np.random.seed(s.get("rngseed", 0) % (2 ** 32))
    try:
        r1 = cont(e.obj)
    except Exception:
        return "done"
    np.random.seed(s.get("rngseed", 0) % (2 ** 32))
    try:
        r2 = cont(res)
    except Exception as ex:
        raise V({"C14"}, "C14.tree.reloaded_unusable", f"operations that work on the original fail on the reloaded TTNS: {type(ex).__name__}: {ex}", sig=f"C14.tree.reloaded_unusable:{type(ex).__name__}")
    for x, y in zip(r1, r2):
        if x.shape != y.shape or float(np.abs(x - y).max() if x.size else 0.0) > 1e-12 * max(float(np.abs(x).max() if x.size else 0.0), 1e-300):
            raise V({"C14"}, "C14.tree.continuation_differs", "canonicalise/compress/scale/add on the reloaded TTNS differ from the same operations on the original", sig="C14.tree.continuation_differs")
    w.stats.probes["roundtrip_continuation:tree"] += 1
    return "done"


@op("drop")
def op_drop(w, s):
    if s["a"] not in w.h:
        return "skipped"
    del w.h[s["a"]]
    if s.get("collect"):
        gc.collect()
        w.stats.probes["gc_collect"] += 1
    return "done"


# ------------------------------------------------------------------------------------------------ proposals

def _real_terms(rnd, spec, nmin=1, nmax=5, charge=None, hermitian=False):
    """TTNO documents that complex operators are not supported: real factors, real local matrices."""
    sites = spec["sites"]
    out = []
    tries = 0
    while len(out) < rnd.randint(nmin, nmax) and tries < 200:
        tries += 1
        t = gm.gen_term(rnd, sites, spec["qn_size"], max_body=3, charge=charge)
        if t is None:
            continue
        if any(p in ("Y", "p", "dx", "x p", "p x", "p^3", "X Y") for p in t["sym"].split(" ")) or "Y" in t["sym"].split(" ") or " p" in " " + t["sym"] + " " and "p^2" not in t["sym"]:
            continue
        t["factor"] = [t["factor"][0] if t["factor"][0] != 0 else 0.5, 0.0]
        out.append(t)
    return out


def _real_hamiltonian(rnd, spec):
    for _ in range(20):
        ham = gm.gen_hamiltonian(rnd, spec["sites"], spec["qn_size"], 2, 6)
        ok = True
        for t in ham:
            parts = t["sym"].split(" ")
            if t["factor"][1] != 0 or any(p in ("Y", "p", "dx", "p^3") for p in parts):
                ok = False
        if ok:
            return ham
    return None


@prop("ttno")
def p_ttno(w, rnd):
    tid = rnd.randrange(len(w.trees))
    if w.tree_specs[tid].get("ctor") == "from_mps" and rnd.random() < 0.7:
        tid = rnd.randrange(len(w.header["trees"]) * (2 if w.aux else 1))
    zero = [0] * w.spec["qn_size"]
    r = rnd.random()
    if r < 0.45:
        terms = _real_hamiltonian(rnd, w.spec)
    elif r < 0.8:
        terms = _real_terms(rnd, w.spec, charge=zero)
    else:
        t = _real_terms(rnd, w.spec, 1, 1)
        terms = t
    if not terms:
        return None
    if rnd.random() < w.header.get("knobs", {}).get("units_prob", 0.0):
        # "units" knob: the same operator in other units, and weak couplings next to strong ones
        sc = 10.0 ** rnd.choice([-9, -6, -3, 3, 6, 9])
        terms = [dict(t, factor=[float(f"{t['factor'][0] * sc * (10.0 ** rnd.choice([0, 0, 0, -4, -8])):.6g}"), 0.0]) for t in terms]
    return {"op": "ttno", "tid": tid, "terms": terms, "algo": rnd.choice(["Hopcroft-Karp", "qr", "Hungarian"]), "vs_mpo": rnd.random() < 0.3, "out": w.new_handle()}


@prop("ttno_same")
def p_ttno_same(w, rnd):
    """the same term list on another topology (results must coincide)"""
    hs = w.handles("ttno")
    if not hs or len(w.trees) < 2:
        return None
    e = w.h[rnd.choice(hs)]
    c = [t for t in range(len(w.trees)) if t != e.tid and w.space[t] == w.space[e.tid]]
    if not c:
        return None
    tid = rnd.choice(c)
    return {"op": "ttno", "tid": tid, "terms": e.meta["terms"], "algo": rnd.choice(["Hopcroft-Karp", "qr"]), "out": w.new_handle()}


@prop("ttns_random")
def p_ttns_random(w, rnd):
    tid = rnd.choice(w.state_tids())
    secs = gm.reachable_sectors(w.model)
    present = [tuple(np.asarray(w.h[x].obj.qntot).reshape(-1).tolist()) for x in w.handles("ttns")]
    q = rnd.choice(present) if present and rnd.random() < 0.6 else rnd.choice(secs)
    s = {"op": "ttns_random", "tid": tid, "qntot": list(q), "m": rnd.choice([1, 2, 3, 4, 6, 10]), "percent": rnd.choice([1.0, 1.0, 0.5]), "out": w.new_handle()}
    if rnd.random() < 0.3:
        s["complex"] = True
        s["phase"] = round(rnd.uniform(0, 6.28), 4)
    if rnd.random() < 0.3:
        s["coeff"] = [round(rnd.uniform(0.3, 2.0), 4) * rnd.choice([1, -1]), round(rnd.uniform(-1, 1), 4) if s.get("complex") else 0.0]
    return s


@prop("ttns_product")
def p_ttns_product(w, rnd):
    tid = rnd.choice(w.state_tids())
    cond = []
    for site in w.spec["sites"]:
        if rnd.random() < 0.6:
            d = gm.site_dofs(site)[0]
            cond.append([list(d) if isinstance(d, tuple) else d, rnd.randrange(gm.site_nbas(site))])
    return {"op": "ttns_product", "tid": tid, "condition": cond, "out": w.new_handle()}


@prop("max_entangled")
def p_max_entangled(w, rnd):
    if not w.aux:
        return None
    c = [t for t in range(len(w.trees)) if w.space[t] == "PQ" and w.partner[t] is not None]
    return {"op": "max_entangled", "tid": rnd.choice(c), "out": w.new_handle()} if c else None


@prop("from_mps")
def p_from_mps(w, rnd):
    if len(w.trees) > 12 or any(b.multi_dof for b in w.basis_objs) and False:
        return None
    secs = gm.reachable_sectors(w.model)
    s = {"op": "from_mps", "qntot": list(rnd.choice(secs)), "m": rnd.choice([1, 2, 4, 8]), "out": w.new_handle()}
    if rnd.random() < 0.3:
        s["complex"] = True
        s["phase"] = round(rnd.uniform(0, 6.28), 4)
    if rnd.random() < 0.4:
        s["coeff"] = [round(rnd.uniform(0.3, 2.0), 4) * rnd.choice([1, -1]), round(rnd.uniform(-1, 1), 4)]
    return s


@prop("add")
def p_add(w, rnd):
    hs = w.handles("ttns")
    rnd.shuffle(hs)
    for a in hs:
        ea = w.h[a]
        c = [b for b in w.handles("ttns", ea.tid) if np.all(np.asarray(w.h[b].obj.qntot) == np.asarray(ea.obj.qntot))]
        if c:
            return {"op": "add", "a": a, "b": rnd.choice(c), "operator": rnd.random() < 0.3, "out": w.new_handle()}
    return None


@prop("scale")
def p_scale(w, rnd):
    hs = w.handles("ttns", pred=nonzero)
    if not hs:
        return None
    v = rc(rnd)
    if abs(complex(*v)) < 1e-3:
        v = [1.5, 0.0]
    return {"op": "scale", "a": rnd.choice(hs), "val": v, "inplace": rnd.random() < 0.4, "out": w.new_handle()}


@prop("normalize")
def p_normalize(w, rnd):
    hs = w.handles("ttns", pred=nonzero)
    if not hs:
        return None
    return {"op": "normalize", "a": rnd.choice(hs), "kind": rnd.choice(["ttns_only", "ttns_norm_to_coeff", "ttns_and_coeff"]), "out": w.new_handle()}


@prop("unary")
def p_unary(w, rnd):
    hs = w.handles("ttns", pred=nonzero)
    if not hs:
        return None
    return {"op": "unary", "a": rnd.choice(hs), "which": rnd.choice(["copy", "to_complex"]), "out": w.new_handle()}


@prop("apply")
def p_apply(w, rnd):
    ops = w.handles("ttno")
    rnd.shuffle(ops)
    for a in ops:
        st = w.handles("ttns", pred=lambda e: (e.tid == w.h[a].tid or w.partner[e.tid] == w.h[a].tid) and nonzero(e) and max(e.obj.bond_dims) * max(w.h[a].obj.bond_dims) <= 60)
        if st:
            return {"op": "apply", "a": a, "b": rnd.choice(st), "matmul": rnd.random() < 0.3, "canonicalise": rnd.random() < 0.3, "out": w.new_handle()}
    return None


@prop("canonicalise")
def p_canonicalise(w, rnd):
    hs = w.handles("ttns", pred=nonzero)
    return {"op": "canonicalise", "a": rnd.choice(hs)} if hs else None


@prop("compress")
def p_compress(w, rnd):
    hs = w.handles("ttns", pred=nonzero)
    if not hs:
        return None
    a = rnd.choice(hs)
    mx = max(w.h[a].obj.bond_dims)
    s = {"op": "compress", "a": a, "out": w.new_handle()}
    if rnd.random() < 0.6:
        s["m"] = rnd.randint(1, max(1, mx))
        s["via_config"] = rnd.random() < 0.4
    return s


@prop("observe")
def p_observe(w, rnd):
    hs = w.handles("ttns", pred=nonzero)
    if not hs:
        return None
    a = rnd.choice(hs)
    e = w.h[a]
    which = rnd.choice(["norm", "todense", "expectation", "expectation", "expectation_op", "rdm1", "entropy1", "rdm1dof", "rdm2dof", "bond_entropy"])
    s = {"op": "observe", "which": which, "a": a}
    if which == "norm":
        s["ttns_norm"] = rnd.random() < 0.5
    elif which == "todense":
        if rnd.random() < 0.7:
            order = list(range(w.nref))
            rnd.shuffle(order)
            s["order"] = order
    elif which == "expectation":
        ops = w.handles("ttno", e.tid) + (w.handles("ttno", w.partner[e.tid]) if w.partner[e.tid] is not None else [])
        if not ops:
            return None
        s["b"] = rnd.choice(ops)
        s["twice"] = rnd.random() < 0.5
    elif which == "expectation_op":
        t = _real_terms(rnd, w.spec, 1, 3, charge=[0] * w.spec["qn_size"])
        if not t:
            return None
        s["terms"] = t
    elif which in ("rdm1", "entropy1"):
        s["idx"] = rnd.choice([None, [rnd.randrange(12)], [rnd.randrange(12), rnd.randrange(12)]])
    elif which == "rdm1dof":
        s["pick"] = [rnd.randrange(12) for _ in range(rnd.randint(1, 2))]
    elif which == "rdm2dof":
        s["pair"] = [rnd.randrange(12), rnd.randrange(12)]
    return s


@prop("evolve")
def p_evolve(w, rnd):
    hams = w.handles("ttno", pred=lambda e: e.meta.get("hermitian"))
    rnd.shuffle(hams)
    for hh in hams:
        st = w.handles("ttns", pred=lambda e: (e.tid == w.h[hh].tid or w.partner[e.tid] == w.h[hh].tid) and nonzero(e) and len(e.obj.node_list) >= 2)
        if not st:
            continue
        a = rnd.choice(st)
        e = w.h[a]
        qntot = np.asarray(e.obj.qntot).reshape(-1)
        mask = dense.sector_mask(w.model, qntot)
        H = w.op_on(w.h[hh], e)
        hn = float(np.linalg.norm(H[np.ix_(mask, mask)], 2)) if mask.any() else 0.0
        if hn < 1e-3:
            continue
        x = 10 ** rnd.uniform(np.log10(0.02), np.log10(0.5)) if rnd.random() < 0.85 else rnd.uniform(0.5, 1.2)
        tau = round(x / hn, 6)
        imag = rnd.random() < 0.35
        method = rnd.choice(["vmf", "tdrk4", "ps", "ps", "ps2"])
        mx = int(max(e.obj.bond_dims_exact[1:] + [1]))
        s = {"op": "evolve", "a": a, "h": hh, "method": method, "dt": [0.0, -tau] if imag else [tau * rnd.choice([1, 1, -1]), 0.0],
             "m": min(mx, 64) if rnd.random() < 0.8 else rnd.randint(1, max(1, min(mx, 8))), "normalize": rnd.random() < 0.7, "prep": rnd.random() < 0.6,
             "per_bond": method in ("ps2", "tdrk4") and rnd.random() < 0.4,
             "out": w.new_handle()}
        return s
    return None


def nocentre_candidates(w):
    """(tid, qntot, cap) for which a state with every bond at its sector cap has NO exactness centre on a branching tree: only the
    ORDER of the splitting integrator holds there (simlab/ref/exactness.py).  Computed from the basis trees alone, cached per world."""
    got = getattr(w, "_nocentre", None)
    if got is not None:
        return got
    from simlab.ref import exactness
    out = []
    if not w.aux:
        qs = int(w.spec["qn_size"])
        site_q = [np.asarray(b.sigmaqn).reshape(b.nbas, qs) for b in w.basis_objs]
        secs = [tuple(int(v) for v in q) for q in gm.reachable_sectors(w.model)][:24]
        for tid in w.state_tids():
            nodes = list(w.trees[tid].node_list)
            if len(nodes) < 3 or not any(len(n.children) >= 2 for n in nodes):
                continue
            idx = {id(n): i for i, n in enumerate(nodes)}
            sides = []
            for node in nodes:
                if node.parent is None:
                    continue
                side, sub, stack = set(), [], [node]
                while stack:
                    n = stack.pop()
                    side.add(idx[id(n)])
                    sub.extend(w.ref_index[id(b)] for b in n.basis_sets if id(b) in w.ref_index)
                    stack.extend(n.children)
                rest = [k for k in range(w.nref) if k not in sub]
                sides.append((side, exactness.counts([site_q[k] for k in sub], qs), exactness.counts([site_q[k] for k in rest], qs),
                              [site_q[k] for k in sorted(sub)], [site_q[k] for k in rest]))
            for q in secs:
                bonds, cap = [], 0
                for side, fa, fb, rows_a, rows_b in sides:
                    labels = []
                    for qa, na in sorted(fa.items()):
                        nb = fb.get(tuple(int(t - a) for t, a in zip(q, qa)), 0)
                        labels += [list(qa)] * min(na, nb)
                    if not labels:
                        bonds = None
                        break
                    cap = max(cap, len(labels))
                    bonds.append((side, np.asarray(labels), rows_a, rows_b))
                if bonds and 2 <= cap <= 40 and int(dense.sector_mask(w.model, np.asarray(q)).sum()) >= 4:
                    full, centre = exactness.splitting_exact(len(nodes), bonds, q)
                    if full and not centre:
                        out.append((tid, q, cap))
    w._nocentre = out
    return out


@prop("evolve_order")
def p_evolve_order(w, rnd):
    """scenario: one-site projector splitting on a branching tree, state at the sector caps, away from the exactness condition
    (steers the population to where the scheme's ORDER is what is being decided)"""
    cands = nocentre_candidates(w)
    if not cands:
        return None
    tid, q, cap = rnd.choice(cands)
    st = w.handles("ttns", pred=lambda e: e.tid == tid and tuple(int(v) for v in np.asarray(e.obj.qntot).reshape(-1)) == q and nonzero(e)
                   and max(e.obj.bond_dims) >= cap and not e.meta.get("evolved"))
    if not st:
        return {"op": "ttns_random", "tid": tid, "qntot": list(q), "m": cap, "percent": 1.0, "out": w.new_handle()}
    a = rnd.choice(st)
    e = w.h[a]
    mask = dense.sector_mask(w.model, np.asarray(q))
    hams = w.handles("ttno", pred=lambda eh: eh.meta.get("hermitian") and eh.tid == tid)
    rnd.shuffle(hams)
    for hh in hams:
        H = w.h[hh].shadow
        hs = H[np.ix_(mask, mask)]
        hn = float(np.linalg.norm(hs, 2)) if mask.any() else 0.0
        if hn < 1e-3 or float(np.linalg.norm(hs - np.diag(np.diag(hs)))) < 0.2 * hn:
            continue          # (operators diagonal in the product basis are propagated exactly by every scheme)
        x = 10 ** rnd.uniform(np.log10(0.03), np.log10(0.25))
        tau = round(x / hn, 6)
        imag = rnd.random() < 0.4
        return {"op": "evolve", "a": a, "h": hh, "method": "ps", "dt": [0.0, -tau] if imag else [tau * rnd.choice([1, 1, -1]), 0.0],
                "m": 64, "normalize": rnd.random() < 0.5, "prep": True, "per_bond": False, "out": w.new_handle()}
    zero = [0] * w.spec["qn_size"]
    for _ in range(12):
        terms = _real_hamiltonian(rnd, w.spec) if rnd.random() < 0.5 else _real_terms(rnd, w.spec, charge=zero)
        if not terms:
            continue
        try:
            hf = dense.dense_op(w.model, [gm.build_op(t) for t in terms])
        except Exception:
            continue
        if float(np.linalg.norm(hf - hf.conj().T)) > 1e-12 * max(float(np.linalg.norm(hf)), 1e-300):
            continue
        hs = hf[np.ix_(mask, mask)]
        if float(np.linalg.norm(hs - np.diag(np.diag(hs)))) >= 0.2 * max(float(np.linalg.norm(hs, 2)), 1e-300):
            return {"op": "ttno", "tid": tid, "terms": terms, "algo": rnd.choice(["Hopcroft-Karp", "qr", "Hungarian"]), "vs_mpo": False, "out": w.new_handle()}
    return None


@prop("expand")
def p_expand(w, rnd):
    hams = w.handles("ttno", pred=lambda e: e.meta.get("hermitian"))
    rnd.shuffle(hams)
    for hh in hams:
        st = w.handles("ttns", w.h[hh].tid, pred=lambda e: nonzero(e) and len(e.obj.node_list) >= 2)
        if st:
            a = rnd.choice(st)
            mx = int(min(max(w.h[a].obj.bond_dims_exact[1:] + [1]), 32))
            return {"op": "expand", "a": a, "h": hh, "m": rnd.randint(max(2, max(w.h[a].obj.bond_dims)), max(2, mx, max(w.h[a].obj.bond_dims))), "out": w.new_handle()}
    return None


@prop("optimize")
def p_optimize(w, rnd):
    hams = w.handles("ttno", pred=lambda e: e.meta.get("hermitian"))
    rnd.shuffle(hams)
    for hh in hams:
        st = w.handles("ttns", w.h[hh].tid, pred=lambda e: nonzero(e) and len(e.obj.node_list) >= 2 and not np.iscomplexobj(np.asarray(e.obj.root.tensor)))
        if not st:
            continue
        a = rnd.choice(st)
        mx = int(min(max(w.h[a].obj.bond_dims_exact[1:] + [1]), 64))
        m = mx if rnd.random() < 0.6 else rnd.randint(1, max(1, min(mx, 6)))
        nsw = rnd.randint(2, 4)
        proc = [[m, rnd.choice([0.4, 0.2, 0.0])] for _ in range(nsw - 2)] + [[m, 0.0], [m, 0.0]]
        return {"op": "optimize", "a": a, "h": hh, "algo": rnd.choice(["davidson", "davidson", "arpack", "direct"]), "procedure": proc, "out": w.new_handle()}
    return None


@prop("lockstep")
def p_lockstep(w, rnd):
    if not w.spec.get("ham") or w.nref < 2:
        return None
    secs = gm.reachable_sectors(w.model)
    method = rnd.choice(["ps", "ps2", "vmf", "tdrk4"])
    imag = rnd.random() < 0.35 and method != "tdrk4"
    s = {"op": "lockstep", "qntot": list(rnd.choice(secs)), "method": method, "imag": imag, "x": round(10 ** rnd.uniform(np.log10(0.02), np.log10(0.5)), 5),
         "sign": rnd.choice([1, 1, -1]), "nsteps": rnd.randint(1, 3)}
    if rnd.random() < 0.3:
        s["coeff"] = round(rnd.uniform(0.3, 2.0), 4) * rnd.choice([1, -1])
    return s


@prop("dump_load")
def p_dump_load(w, rnd):
    hs = w.handles("ttns")
    if not hs or not w.scratch:
        return None
    from simlab.chain_io import _gen_faults
    return {"op": "dump_load", "a": rnd.choice(hs), "out": w.new_handle(), "faults": _gen_faults(rnd, ["open_w", "write"]), "other_attrs": rnd.random() < 0.35}


@prop("drop")
def p_drop(w, rnd):
    hs = list(w.h)
    if len(hs) < 3:
        return None
    return {"op": "drop", "a": rnd.choice(hs), "collect": rnd.random() < 0.6}


def propose(w, rnd, weights):
    names = list(weights)
    for _ in range(30):
        name = rnd.choices(names, [weights[n] for n in names])[0]
        s = PROPOSERS[name](w, rnd)
        if s is not None:
            s["rngseed"] = rnd.randrange(2 ** 31)
            return s
    return None


def gen_header(rnd, maxdim=64, nmax=5, aux=False):
    if aux:
        # every basis set gets an auxiliary copy: single-dof sets only (BasisSet.copy), small physical dimension
        spec = gm.gen_sites(rnd, flavour=rnd.choice(["spin", "spinqn", "eph", "eph", "eph", "two"]), nmin=2, nmax=min(nmax, 3), maxdim=min(maxdim, 12))
    else:
        spec = gm.gen_sites(rnd, flavour=rnd.choice(["spin", "spinqn", "eph", "eph", "mixed", "two", "multi"]), nmin=2, nmax=nmax, maxdim=maxdim)
    for site in spec["sites"]:
        site.pop("x0", None)
    spec["ham"] = _real_hamiltonian(rnd, spec) or []
    nb = len(spec["sites"])
    trees = [gen_tree_spec(rnd, nb)]
    re = reorder_children(trees[0], rnd)
    if re is not None:
        trees.append(re)
    for _ in range(rnd.randint(0, 2)):
        trees.append(gen_tree_spec(rnd, nb))
    h = {"model": spec, "trees": trees}
    if aux:
        h["aux"] = True
        if rnd.random() < 0.7:
            # layouts accepted by max_entangled_ex: one physical set per node
            h["trees"] = [t if t["ctor"] != "explicit" else dict(t, ctor=rnd.choice(["linear", "binary", "t3ns", "mctdh2"]), perm=list(range(nb)), contract_primitive=True) for t in trees]
            for t in h["trees"]:
                if t["ctor"] in ("mctdh2", "mctdh3"):
                    t["contract_primitive"] = True
    return h
