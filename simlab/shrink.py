"""Delta debugging over the recorded step list of a plan (plus profile-specific simplifications).

A candidate is kept iff replaying it (persistent worker, fresh world) fails with the SAME invariant id.
Steps referring to handles that no longer exist are skipped by the replayer, so dropping is always legal."""
import copy
import time

from simlab import cli


def shrink(pid, plan, violation, hash_class, timeout, deadline):
    steps = plan.get("steps")
    if not isinstance(steps, list) or len(steps) <= 1:
        return plan
    inv = violation.get("inv")
    worker = cli.Worker(hash_class)
    tests = [0]

    def fails(cand_steps, header=None):
        if time.time() > deadline:
            return False
        p = dict(plan if header is None else header)
        p["steps"] = cand_steps
        tests[0] += 1
        r = worker.call({"cmd": "replay", "profile": pid, "plan": p, "want_plan": True}, timeout)
        return r.get("status") == "violation" and r["violation"].get("inv") == inv

    try:
        if not fails(steps):
            return plan  # not reproducible in a warm worker: leave as is (fresh-process confirm decides)
        # cut everything after the violating step
        k = violation.get("step")
        if isinstance(k, int) and 0 <= k < len(steps) - 1 and fails(steps[:k + 1]):
            steps = steps[:k + 1]
        n = 2
        while len(steps) >= 2 and time.time() < deadline:
            chunk = max(1, len(steps) // n)
            reduced = False
            i = 0
            while i < len(steps):
                cand = steps[:i] + steps[i + chunk:]
                if cand and fails(cand):
                    steps = cand
                    n = max(n - 1, 2)
                    reduced = True
                else:
                    i += chunk
            if not reduced:
                if chunk == 1:
                    break
                n = min(len(steps), n * 2)
        # drop fault decisions step by step
        for i in range(len(steps)):
            if isinstance(steps[i], dict) and steps[i].get("fault"):
                cand = copy.deepcopy(steps)
                cand[i].pop("fault")
                if fails(cand):
                    steps = cand
        out = dict(plan)
        out["steps"] = steps
        out["shrink_tests"] = tests[0]
        return out
    finally:
        worker.close()
