"""Long-lived worker: executes simulated runs / replays of one profile inside one interpreter.

Started by the driver with a fixed PYTHONHASHSEED.  Protocol: one JSON command per stdin line, one
response per line on the *original* stdout, prefixed by MARK; everything the library prints goes to stderr.
"""
import faulthandler
import gc
import importlib
import json
import os
import sys
import time
import traceback

MARK = "@@R "


def main():
    proto = os.fdopen(os.dup(1), "w", buffering=1)
    os.dup2(2, 1)  # stray prints of the library go to stderr
    sys.stdout = sys.stderr

    from simlab import env
    env.setup_worker()
    faulthandler.enable()

    from simlab.core import Violation, HarnessError, jsonable
    from simlab.registry import REGISTRY

    modules = {}

    def get_module(pid):
        if pid not in modules:
            modules[pid] = importlib.import_module(REGISTRY[pid]["module"])
        return modules[pid]

    for line in sys.stdin:
        line = line.strip()
        if not line:
            continue
        cmd = json.loads(line)
        if cmd["cmd"] == "quit":
            break
        t0 = time.time()
        timeout = float(cmd.get("timeout", 300))
        faulthandler.dump_traceback_later(timeout, exit=True)
        res = {}
        try:
            mod = get_module(cmd["profile"])
            if cmd["cmd"] == "run":
                res = mod.generate_and_run(cmd["seed"], cmd["index"], cmd["tier"])
            elif cmd["cmd"] == "replay":
                res = mod.replay(cmd["plan"])
            elif cmd["cmd"] == "selfcheck":
                res = mod.selfcheck() if hasattr(mod, "selfcheck") else {"status": "ok"}
            else:
                raise HarnessError(f"unknown command {cmd['cmd']}")
        except Violation as v:  # profiles normally catch these themselves
            res = {"status": "violation", "violation": {"inv": v.inv, "detail": v.detail, "sig": v.sig, "step": -1}}
        except BaseException as e:  # noqa
            res = {"status": "error", "error": f"{type(e).__name__}: {e}", "traceback": traceback.format_exc()[-4000:]}
            if isinstance(e, (KeyboardInterrupt, SystemExit)):
                proto.write(MARK + json.dumps(jsonable(res)) + "\n")
                raise
        finally:
            faulthandler.cancel_dump_traceback_later()
        res.setdefault("status", "ok")
        res["wall"] = time.time() - t0
        res["index"] = cmd.get("index")
        res["seed"] = cmd.get("seed")
        res["hashseed"] = os.environ.get("PYTHONHASHSEED")
        if not cmd.get("want_plan") and res["status"] == "ok":
            res.pop("plan", None)
        proto.write(MARK + json.dumps(jsonable(res)) + "\n")
        proto.flush()
        gc.collect()


if __name__ == "__main__":
    main()
