"""Thermal / closed-form propagation operations on the chain world (C10; C13 for the phase bookkeeping).

  max_entangled   MpDm.max_entangled_gs / _ex         vs an independently assembled purification
  thermal_job     the real ThermalProp job, stepped one evolve_single_step at a time by the simulator:
                  energies / occupations after every step vs dense Gibbs averages at beta = 2 k tau, final state
  exact_prop      Mpo.exact_propagator(model, x, space, shift) vs dense exp(x (H_vib + shift))
  evolve_exact    Mps/MpDm.evolve_exact with non-zero offsets: output carries exp(-i dt H_vib), input untouched
"""
import math

import numpy as np
import scipy.linalg

from simlab.core import HarnessError, Violation
from simlab.chain import op, prop, V, nonzero, tens, exact_bond_cap
from simlab.chain_evolve import make_config, scheme_bound, _sector_norm
from simlab.ref import dense

from renormalizer.model import HolsteinModel, Mol, Phonon
from renormalizer.mps import Mps, Mpo, MpDm
from renormalizer.mps.thermalprop import ThermalProp
from renormalizer.utils import Quantity, CompressConfig, CompressCriteria, EvolveConfig, EvolveMethod


def build_holstein(h):
    mols = []
    for m in range(h["nmol"]):
        phs = [Phonon.simple_phonon(Quantity(p["w"]), Quantity(p["d"]), p["n"]) for p in h["ph"][m % len(h["ph"])]]
        mols.append(Mol(Quantity(h["elocalex"][m % len(h["elocalex"])]), phs, 1.0))
    return HolsteinModel(mols, Quantity(h["J"]), scheme=h.get("scheme", 2))


def holstein_sites(h):
    """Site spec (for the proposers) matching HolsteinModel's basis order."""
    sites = []
    if h.get("scheme", 2) < 4:
        for m in range(h["nmol"]):
            sites.append({"type": "elec", "dof": m})
            for q, p in enumerate(h["ph"][m % len(h["ph"])]):
                sites.append({"type": "sho", "dof": [m, q], "omega": p["w"], "nbas": p["n"]})
    else:
        nleft = h["nmol"] // 2
        ph_sites = []
        nleft_ph = 0
        for m in range(h["nmol"]):
            for q, p in enumerate(h["ph"][m % len(h["ph"])]):
                if m < nleft:
                    nleft_ph += 1
                ph_sites.append({"type": "sho", "dof": [m, q], "omega": p["w"], "nbas": p["n"]})
        sites = ph_sites[:nleft_ph] + [{"type": "multivac", "dofs": list(range(h["nmol"]))}] + ph_sites[nleft_ph:]
    return sites


def gen_holstein(rnd):
    nmol = rnd.choice([1, 2, 2])
    nph = 1 if nmol == 2 else rnd.choice([1, 2])
    ph = [[{"w": round(rnd.uniform(0.5, 1.5), 3), "d": round(rnd.uniform(-1.0, 1.0), 3), "n": rnd.choice([2, 3])} for _ in range(nph)]]
    h = {"nmol": nmol, "ph": ph, "elocalex": [round(rnd.uniform(0.0, 1.0), 3) for _ in range(nmol)], "J": round(rnd.uniform(-0.5, 0.5), 3) or 0.1,
         "scheme": rnd.choice([2, 2, 4])}
    return {"flavour": "holstein", "qn_size": 1, "holstein": h, "sites": holstein_sites(h), "ham": []}


# ------------------------------------------------------------------------------------------------ reference pieces

def ladder(n):
    b = np.diag(np.sqrt(np.arange(1, n)), k=1)
    return b, b.T


def local_vib_matrices(model, space, holstein):
    """Per-site matrices of the purely local vibrational Hamiltonian the closed-form propagator is documented for:
    GS: omega b+b ; EX: omega b+b + term10 (b+ + b) with term10 = -omega1^2 d / sqrt(2 omega0).  Electronic sites: 0."""
    mats = []
    for bs in model.basis:
        if not bs.is_phonon:
            mats.append(np.zeros((bs.nbas, bs.nbas)))
            continue
        m, q = bs.dof
        p = holstein["ph"][m % len(holstein["ph"])][q]
        n = bs.nbas
        b, bd = ladder(n)
        h = p["w"] * np.diag(np.arange(n))
        if space == "EX":
            h = h + (-(p["w"] ** 2) * p["d"] / math.sqrt(2 * p["w"])) * (b + bd)
        mats.append(h)
    return mats


def kron_sum(mats):
    dims = [m.shape[0] for m in mats]
    d = int(np.prod(dims))
    out = np.zeros((d, d))
    for i, m in enumerate(mats):
        parts = [np.eye(k) for k in dims]
        parts[i] = m
        out += dense.kron_all(parts)
    return out


# ------------------------------------------------------------------------------------------------ operations

@op("max_entangled")
def op_max_entangled(w, s):
    model = w.models[s["mid"]]
    which = s["which"]
    if any(type(b).__name__ == "BasisMultiElectron" for b in model.basis):
        return "skipped"  # needs an explicit occupation condition
    if which == "ex" and not model.e_dofs:
        return "skipped"
    if any(b.is_spin and np.any(np.asarray(b.sigmaqn) != 0) for b in model.basis):
        # the infinite-temperature spin state mixes charge sectors: it has no fixed total quantum number, so the
        # constructor (which labels everything with charge 0) is only meaningful for spins without symmetry labels
        return "skipped"
    try:
        rho = MpDm.max_entangled_gs(model) if which == "gs" else MpDm.max_entangled_ex(model)
    except (ValueError, NotImplementedError):
        return "skipped"
    # independent assembly: infinite-temperature purification of vibrations/spins, electronic vacuum
    vec = np.ones(1)
    for b in model.basis:
        if b.is_phonon or b.is_spin:
            v = np.ones(b.nbas) / math.sqrt(b.nbas)
        else:
            v = np.zeros(b.nbas)
            v[0] = 1.0
        vec = np.kron(vec, v)
    if which == "ex":
        from renormalizer.model import Op
        up = dense.dense_op(model, [Op(r"a^\dagger", d) for d in model.e_dofs])
        vec = up @ vec
        vec = vec / np.linalg.norm(vec)
    ref = np.diag(vec)
    w.put(s["out"], "mpdm", rho, ref, s["mid"], {"max_entangled": which})
    w.check_value(s["out"], {"C10"}, "C10.max_entangled", what=f"max_entangled_{which}")
    return "done"


def _obs(rho, H, model):
    """<H>, electronic and vibrational occupations of the purification rho (matrix, rows = physical index)."""
    from renormalizer.model import Op
    nrm = float(np.sum(np.abs(rho) ** 2))
    e = float(np.real(np.sum(rho.conj() * (H @ rho)))) / nrm
    eo = [float(np.real(np.sum(rho.conj() * (dense.dense_op(model, [Op(r"a^\dagger a", d)]) @ rho)))) / nrm for d in model.e_dofs]
    vo = [float(np.real(np.sum(rho.conj() * (dense.dense_op(model, [Op("n", d)]) @ rho)))) / nrm for d in model.v_dofs]
    return e, np.array(eo), np.array(vo)


@op("thermal_job")
def op_thermal_job(w, s):
    a = s["a"]
    if not w.live_ok(a) or w.h[a].kind != "mpdm" or not nonzero(w.h[a]):
        return "skipped"
    e = w.h[a]
    model = e.obj.model
    if not model.e_dofs or not model.v_dofs or any(not (b.is_phonon or type(b).__name__ in ("BasisSimpleElectron", "BasisMultiElectronVac")) for b in model.basis):
        return "skipped"
    h_terms = list(model.ham_terms)
    hmodel = None
    if s.get("hmods"):
        # the Hamiltonian of the job is given separately from the model the initial state was built on (h_mpo_model)
        from renormalizer.model import Model
        if len(s["hmods"]) != len(h_terms):
            return "skipped"
        h_terms = [t * f for t, f in zip(h_terms, s["hmods"])]
        hmodel = Model(model.basis, h_terms)
    H = dense.dense_op(model, h_terms)
    if float(np.abs(H - H.conj().T).max()) > 1e-12:
        return "skipped"
    hn = float(np.linalg.norm(H, 2))
    tau = s["tau"]
    k = s["nsteps"]
    c = s["cfg"]
    from simlab.chain import sweep_ready
    if not sweep_ready(e.obj):
        return "skipped"  # the job canonicalises its initial state (asserts a sweep-ready centre)
    t0 = tens(e).astype(complex)
    e0 = float(np.real(np.vdot(t0, H @ t0)) / max(float(np.real(np.vdot(t0, t0))), 1e-300))
    for shift in (0.0, e0):
        # the job re-offsets the Hamiltonian by the current energy: (H - <H>) rho vanishes for an eigenstate (e.g. uncoupled electrons)
        y = t0
        for _k in range(6):
            y = H @ y - shift * y
            if float(np.linalg.norm(y)) < 1e-10 * hn ** (_k + 1) * float(np.linalg.norm(t0)):
                w.stats.probes["thermal_kernel_state_skipped"] += 1
                return "skipped"  # (H - E)^k rho vanishes: a zero operand cannot be canonicalised (loud refusal of P&C)
    if hn * tau > 0.5 or hn < 1e-3:
        return "skipped"
    if abs(float(np.linalg.norm(tens(e))) - 1.0) > 1e-9:
        return "skipped"  # expectation values of the initial step are not normalised by the job: start from a normalised state
    init = e.obj.copy()
    cap = exact_bond_cap(w.pd(e.mid, "mpdm"))
    init.compress_config = CompressConfig(CompressCriteria.fixed, max_bonddim=max(cap))
    ec = make_config(c)
    exact = bool(s.get("exact"))
    w.cur_op = "thermal_job"
    try:
        if hmodel is not None:
            job = ThermalProp(init, h_mpo_model=hmodel, exact=exact, space=s.get("space", "GS"), evolve_config=ec, auto_expand=False)
            w.stats.probes["thermal_h_mpo_model"] += 1
        else:
            job = ThermalProp(init, exact=exact, space=s.get("space", "GS"), evolve_config=ec, auto_expand=False)
        # cooling in stages: the step may change from one evolve() call to the next (factors <= 1 keep every step inside the judged range)
        stages = (list(s.get("stages") or []) + [1.0] * k)[:k]
        for f in stages:
            job.evolve(evolve_dt=-1j * tau * f, nsteps=1)
    except (Violation, HarnessError):
        raise
    except Exception as ex:
        raise V({"C10"}, "C10.thermal.raised", f"ThermalProp({c['method']}, exact={exact}) step: {type(ex).__name__}: {ex}", sig=f"C10.thermal.raised:{c['method']}:{type(ex).__name__}")
    # ---- reference trajectory
    if exact:
        Hloc = kron_sum(local_vib_matrices(model, s.get("space", "GS"), w.model_specs[e.mid]["holstein"]))
        Us = [scipy.linalg.expm(-tau * f * Hloc) for f in stages]
    else:
        Us = [scipy.linalg.expm(-tau * f * H) for f in stages]
    rho = tens(e).astype(complex)
    x = hn * tau
    bound, why = scheme_bound(c, ec, min(max(x, 1e-6), 10.0), c["method"], True, "mpdm") if not exact else (1e-9, "closed form")
    judged = ((0.02 <= x <= 0.5) and c["method"] == "pc") or exact
    # TDVP jobs start from bond dimension one, where the projector splitting is not exact: only bookkeeping is judged
    refs = []
    for i in range(k + 1):
        if i:
            rho = Us[i - 1] @ rho
            rho = rho / np.linalg.norm(rho)
        refs.append(_obs(rho, H, model))
    if len(job.energies) != k + 1:
        raise V({"C10"}, "C10.thermal.bookkeeping", f"job recorded {len(job.energies)} energies after {k} steps")
    if len(job.evolve_times) != k + 1 or abs(job.evolve_times[-1] - (-1j * tau * sum(stages))) > 1e-12 * max(1.0, tau * k):
        raise V({"C10"}, "C10.thermal.time", f"job clock {job.evolve_times} after steps {[-1j * tau * f for f in stages]}")
    if judged and bound is not None:
        for i in range(k + 1):
            tol = (2 * hn * (i * bound) + 1e-9 * max(hn, 1.0)) * 1.0
            w.stats.ratio("C10.thermal.energy", abs(job.energies[i] - refs[i][0]), max(tol, 1e-300))
            if abs(job.energies[i] - refs[i][0]) > tol:
                raise V({"C10"}, "C10.thermal.energy", f"ThermalProp({c['method']}, exact={exact}, x={x:.3g}) energy after step {i}: {job.energies[i]!r} vs Gibbs average {refs[i][0]!r} (allowed {tol:.2e})",
                        sig=f"C10.thermal.energy:{c['method']}:{'exact' if exact else 'prop'}")
        if not exact:
            eo = job.e_occupations_array
            vo = job.ph_occupations_array
            for i in range(k + 1):
                tol = 2 * (i * bound) * max(model.pbond_list) + 1e-9
                d1 = float(np.abs(eo[i] - refs[i][1]).max()) if len(refs[i][1]) else 0.0
                d2 = float(np.abs(vo[i] - refs[i][2]).max()) if len(refs[i][2]) else 0.0
                w.stats.ratio("C10.thermal.occupations", max(d1, d2), max(tol, 1e-300))
                if max(d1, d2) > tol:
                    raise V({"C10", "C07"}, "C10.thermal.occupations", f"ThermalProp({c['method']}) occupations after step {i} differ from the Gibbs averages by {max(d1, d2):.3e} (allowed {tol:.2e})",
                            sig=f"C10.thermal.occupations:{c['method']}")
    final = job.latest_mps
    got = dense.dense_of(final)
    w.put(s["out"], "mpdm", final, got, e.mid, {"evolved": True})
    if judged and bound is not None:
        ref = rho  # normalised
        gn = got / max(float(np.linalg.norm(got)), 1e-300)
        # remove the global phase / sign convention of the normalisation (coeff normalised to modulus one)
        ph = np.vdot(ref, gn)
        ph = ph / abs(ph) if abs(ph) > 0 else 1.0
        err = float(np.linalg.norm(gn - ref * ph))
        w.stats.ratio("C10.thermal.state", err, k * bound + 1e-9)
        if err > k * bound + 1e-9:
            raise V({"C10"}, "C10.thermal.state", f"ThermalProp({c['method']}, exact={exact}) final state differs from normalised exp(-beta H/2) rho0 by {err:.3e} (allowed {k * bound:.2e})",
                    sig=f"C10.thermal.state:{c['method']}")
    w.stats.probes["thermal_jobs"] += 1
    w.stats.sim_steps += k
    w.stats.sim_time += k * tau
    return "done"


@op("exact_prop")
def op_exact_prop(w, s):
    spec = w.model_specs[s["mid"]]
    if "holstein" not in spec:
        return "skipped"
    model = w.models[s["mid"]]
    x = complex(*s["x"])
    if x.imag == 0:
        x = x.real
    space = s["space"]
    shift = s["shift"]
    mpo = Mpo.exact_propagator(model, x, space, shift)
    Hloc = kron_sum(local_vib_matrices(model, space, spec["holstein"]))
    ref = scipy.linalg.expm(x * (Hloc + shift * np.eye(Hloc.shape[0])))
    w.put(s["out"], "mpo", mpo, ref, s["mid"])
    w.check_value(s["out"], {"C10"}, "C10.exact_propagator", what=f"exact_propagator(x={x}, space={space}, shift={shift})")
    if max(mpo.bond_dims) != 1:
        raise V({"C10"}, "C10.exact_propagator.bond", f"closed-form propagator has bonds {mpo.bond_dims}")
    return "done"


@op("evolve_exact")
def op_evolve_exact(w, s):
    a, hh = s["a"], s["h"]
    if not w.live_ok(a, hh):
        return "skipped"
    e, eh = w.h[a], w.h[hh]
    spec = w.model_specs[e.mid]
    if "holstein" not in spec or eh.mid != e.mid or e.kind == "mpo" or not eh.meta.get("hermitian") or not nonzero(e):
        return "skipped"
    from simlab.chain import sweep_ready
    if not sweep_ready(e.obj):
        return "skipped"  # apply(..., canonicalise=True) asserts a sweep-ready centre
    model = e.obj.model
    dt = s["dt"]
    if abs(dt) < 1e-12:
        return "skipped"      # a step of length zero is not a propagation (the closed-form propagator asserts a non-zero exponent)
    space = s["space"]
    off = eh.meta.get("offset", 0.0)
    Hloc = kron_sum(local_vib_matrices(model, space, spec["holstein"]))
    P = scipy.linalg.expm(-1j * dt * Hloc)
    w.cur_op = "evolve_exact"
    try:
        res = e.obj.evolve_exact(eh.obj, dt, space)
    except (Violation, HarnessError):
        raise
    except Exception as ex:
        raise V({"C10"}, "C10.evolve_exact.raised", f"evolve_exact: {type(ex).__name__}: {ex}", sig=f"C10.evolve_exact.raised:{type(ex).__name__}")
    ref = (P @ e.shadow) if e.kind == "mps" else (e.shadow @ P)
    w.put(s["out"], e.kind, res, ref, e.mid, {"evolved": True})
    w.check_value(s["out"], {"C10", "C13"}, "C10.evolve_exact.output", what=f"evolve_exact(offset={off}, dt={dt}, space={space}) output")
    # the input must not carry the phase (C13 monitor re-checks it right after this step as an untouched object)
    return "done"


# ------------------------------------------------------------------------------------------------ proposals

@prop("max_entangled")
def p_max_entangled(w, rnd):
    mids = [i for i, sp in enumerate(w.model_specs) if dense.dim(w.models[i]) <= 36]
    if not mids:
        return None
    return {"op": "max_entangled", "mid": rnd.choice(mids), "which": rnd.choice(["gs", "ex"]), "out": w.new_handle()}


@prop("thermal_job")
def p_thermal_job(w, rnd):
    hs = w.handles("mpdm", pred=lambda e: nonzero(e) and e.meta.get("max_entangled"))
    if not hs:
        return None
    a = rnd.choice(hs)
    e = w.h[a]
    model = e.obj.model
    H = dense.dense_op(model, model.ham_terms)
    hn = float(np.linalg.norm(H, 2))
    if hn < 1e-6:
        return None
    x = 10 ** rnd.uniform(math.log10(0.02), math.log10(0.5))
    method = rnd.choice(["pc", "pc", "ps2", "ps", "mu_vmf"])
    c = {"method": method}
    if method == "pc":
        c["taylor_order"] = rnd.choice([None, 3, 4, 5])
    elif method in ("ps", "ps2"):
        c["ivp_solver"] = rnd.choice(["krylov", "RK45"])
    s = {"op": "thermal_job", "a": a, "cfg": c, "tau": round(x / hn, 6), "nsteps": rnd.randint(1, 4), "out": w.new_handle()}
    spec = w.model_specs[e.mid]
    if "holstein" in spec and rnd.random() < 0.3:
        h = spec["holstein"]
        if e.meta.get("max_entangled") == "gs":
            s.update(exact=True, space="GS")
    if s["nsteps"] > 1 and rnd.random() < 0.5:
        s["stages"] = [rnd.choice([1.0, 0.5, 0.25, 0.75]) for _ in range(s["nsteps"])]
    if not s.get("exact") and rnd.random() < 0.3:
        # Hermitian pairs stay Hermitian only with a common multiplier: one factor for all terms plus exact sign flip of all
        f = round(rnd.uniform(0.4, 1.6), 3) * rnd.choice([1, -1])
        s["hmods"] = [f] * len(model.ham_terms)
        s["tau"] = round(x / (hn * abs(f)), 6)
    return s


@prop("exact_prop")
def p_exact_prop(w, rnd):
    mids = [i for i, sp in enumerate(w.model_specs) if "holstein" in sp]
    if not mids:
        return None
    x = [round(rnd.uniform(-1, 1), 4), 0.0] if rnd.random() < 0.5 else [0.0, round(rnd.uniform(-2, 2), 4)]
    return {"op": "exact_prop", "mid": rnd.choice(mids), "x": x, "space": rnd.choice(["GS", "EX"]), "shift": rnd.choice([0.0, round(rnd.uniform(-1, 1), 3)]), "out": w.new_handle()}


@prop("evolve_exact")
def p_evolve_exact(w, rnd):
    hams = w.handles("mpo", pred=lambda e: e.meta.get("hermitian") and "holstein" in w.model_specs[e.mid])
    rnd.shuffle(hams)
    for hh in hams:
        st = w.handles(("mps", "mpdm"), w.h[hh].mid, pred=nonzero)
        if st:
            return {"op": "evolve_exact", "a": rnd.choice(st), "h": hh, "dt": round(rnd.uniform(-2, 2), 4), "space": rnd.choice(["GS", "EX"]), "out": w.new_handle()}
    return None
