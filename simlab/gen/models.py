"""Seeded generators of small models, term lists and sectors.  Everything generated is a JSON-able *spec*;
`build_*` turn specs into library objects, so a recorded plan replays without the generator."""
import numpy as np

from renormalizer.model import Model, Op
from renormalizer.model import basis as ba

# ------------------------------------------------------------------ site specs


def build_basis(site):
    t = site["type"]
    dof = _dof(site["dof"]) if "dof" in site else None
    if t == "spin":
        return ba.BasisHalfSpin(dof, site.get("qn"))
    if t == "elec":
        return ba.BasisSimpleElectron(dof, site.get("qn"))
    if t == "sho":
        return ba.BasisSHO(dof, site["omega"], site["nbas"], x0=site.get("x0", 0.0), dvr=site.get("dvr", False))
    if t == "multi":
        return ba.BasisMultiElectron([_dof(d) for d in site["dofs"]], site["qn"])
    if t == "multivac":
        return ba.BasisMultiElectronVac([_dof(d) for d in site["dofs"]])
    raise ValueError(t)


def _dof(d):
    return tuple(d) if isinstance(d, list) else d


def site_dofs(site):
    if "dofs" in site:
        return [_dof(d) for d in site["dofs"]]
    return [_dof(site["dof"])]


def site_nbas(site):
    t = site["type"]
    if t in ("spin", "elec"):
        return 2
    if t == "sho":
        return site["nbas"]
    if t == "multi":
        return len(site["dofs"])
    if t == "multivac":
        return len(site["dofs"]) + 1


def build_op(ts):
    f = ts["factor"]
    factor = complex(f[0], f[1]) if isinstance(f, (list, tuple)) else f
    if isinstance(factor, complex) and factor.imag == 0:
        factor = factor.real
    dofs = [_dof(d) for d in ts["dofs"]]
    return Op(ts["sym"], dofs, factor, ts.get("qn"))


def build_model(spec, basis=None):
    if basis is None:
        basis = [build_basis(s) for s in spec["sites"]]
    return Model(basis, [build_op(t) for t in spec["ham"]])


# ------------------------------------------------------------------ elementary symbols with their charge

def _q(qn_size, comp, val):
    q = [0] * qn_size
    q[comp] = val
    return q


def elementary(site, rnd, qn_size, neutral_only=False, hermitian_only=False):
    """One random elementary (single-site) symbol for this site: (symbol, [dofs], qn-list per simple symbol, is_hermitian)."""
    t = site["type"]
    zero = [0] * qn_size
    if t == "spin":
        d = _dof(site["dof"])
        if site.get("qn") is None:
            sym = rnd.choice(["X", "Y", "Z", "sigma_+", "sigma_-", "sigma_x", "sigma_z", "Z X", "X Y"] if not hermitian_only else ["X", "Y", "Z", "sigma_x", "sigma_z"])
            n = len(sym.split(" "))
            return sym, [d] * n, [zero] * n, sym in ("X", "Y", "Z", "sigma_x", "sigma_z")
        q1 = [a - b for a, b in zip(site["qn"][1], site["qn"][0])]  # charge of |1> minus |0>
        choices = ["Z", "sigma_z"] if (neutral_only or hermitian_only) else ["Z", "sigma_+", "sigma_-", "sigma_+ sigma_-", "sigma_- sigma_+"]
        sym = rnd.choice(choices)
        qmap = {"Z": zero, "sigma_z": zero, "sigma_+": [-x for x in q1], "sigma_-": q1}
        parts = sym.split(" ")
        return sym, [d] * len(parts), [qmap[p] for p in parts], sym in ("Z", "sigma_z")
    if t == "elec":
        d = _dof(site["dof"])
        q1 = [a - b for a, b in zip(_qn_rows(site, 2)[1], _qn_rows(site, 2)[0])]
        choices = [r"a^\dagger a"] if (neutral_only or hermitian_only) else [r"a^\dagger a", r"a^\dagger", "a"]
        sym = rnd.choice(choices)
        qmap = {r"a^\dagger a": [q1, [-x for x in q1]], r"a^\dagger": [q1], "a": [[-x for x in q1]]}
        return sym, [d] * len(qmap[sym]), qmap[sym], sym == r"a^\dagger a"
    if t == "sho":
        d = _dof(site["dof"])
        herm = ["x", "x^2", "p^2", "n", r"b^\dagger b", "p", "x^3"]
        non = ["b", r"b^\dagger", "x p", "p x", "x x", "dx", "b b"]
        sym = rnd.choice(herm if hermitian_only else herm + non)
        n = 1  # a compound SHO symbol such as "x p" is ONE symbol for the basis (same dof): keep it as a single Op symbol
        parts = sym.split(" ")
        return sym, [d] * len(parts), [zero] * len(parts), sym in herm
    if t in ("multi", "multivac"):
        dofs = site_dofs(site)
        rows = _qn_rows(site, len(dofs) + (1 if t == "multivac" else 0))
        off = 1 if t == "multivac" else 0
        i = rnd.randrange(len(dofs))
        j = rnd.randrange(len(dofs))
        if hermitian_only or (neutral_only and rows[i + off] != rows[j + off]):
            j = i
        qi, qj = rows[i + off], rows[j + off]
        base = rows[0] if t == "multivac" else None
        if t == "multivac" and not neutral_only and not hermitian_only and rnd.random() < 0.3:
            k = rnd.randrange(len(dofs))
            dq = [a - b for a, b in zip(rows[k + off], base)]
            if rnd.random() < 0.5:
                return r"a^\dagger", [dofs[k]], [dq], False
            return "a", [dofs[k]], [[-x for x in dq]], False
        # a^dagger_i a_j : |i><j|, charge q_i - q_j split as (+q_i', -q_j')
        up = [a - b for a, b in zip(qi, rows[0] if t == "multivac" else [0] * qn_size)]
        dn = [a - b for a, b in zip(qj, rows[0] if t == "multivac" else [0] * qn_size)]
        return r"a^\dagger a", [dofs[i], dofs[j]], [up, [-x for x in dn]], i == j
    raise ValueError(t)


def _qn_rows(site, nbas):
    t = site["type"]
    if t == "elec":
        q = site.get("qn") or [0, 1]
    elif t == "spin":
        q = site.get("qn") or [0, 0]
    elif t == "multivac":
        q = [0] + [1] * len(site["dofs"])
    else:
        q = site["qn"]
    return [[x] if isinstance(x, int) else list(x) for x in q]


# ------------------------------------------------------------------ model generation

def gen_sites(rnd, flavour=None, nmin=2, nmax=5, maxdim=200):
    """Random ordered site list.  flavours: spin (no symmetry), spinqn (U(1) on spins), eph (electron-phonon, U(1)),
    multi (multi-electron sites + phonons), two (two-component charges)."""
    flavour = flavour or rnd.choice(["spin", "spinqn", "eph", "eph", "multi", "two", "mixed"])
    while True:
        n = rnd.randint(nmin, nmax)
        sites = []
        qn_size = 2 if flavour == "two" else 1
        for i in range(n):
            if flavour == "spin":
                if rnd.random() < 0.8:
                    sites.append({"type": "spin", "dof": f"s{i}"})
                else:
                    sites.append(_sho(rnd, i))
            elif flavour == "spinqn":
                sites.append({"type": "spin", "dof": f"s{i}", "qn": [[0], [1]]})
            elif flavour == "eph":
                if i == 0 or rnd.random() < 0.55:
                    sites.append({"type": "elec", "dof": f"e{i}"})
                else:
                    sites.append(_sho(rnd, i))
            elif flavour == "mixed":
                r = rnd.random()
                if r < 0.35:
                    sites.append({"type": "elec", "dof": f"e{i}"})
                elif r < 0.6:
                    sites.append({"type": "spin", "dof": f"s{i}", "qn": [[0], [1]]})
                elif r < 0.8:
                    sites.append(_sho(rnd, i))
                else:
                    k = rnd.randint(2, 3)
                    sites.append({"type": "multivac", "dofs": [f"m{i}_{j}" for j in range(k)]})
            elif flavour == "multi":
                r = rnd.random()
                if r < 0.4:
                    k = rnd.randint(2, 3)
                    sites.append({"type": "multivac", "dofs": [f"m{i}_{j}" for j in range(k)]})
                elif r < 0.6:
                    k = rnd.randint(2, 3)
                    sites.append({"type": "multi", "dofs": [f"m{i}_{j}" for j in range(k)], "qn": [[rnd.choice([0, 1])] for _ in range(k)]})
                elif r < 0.8:
                    sites.append({"type": "elec", "dof": f"e{i}"})
                else:
                    sites.append(_sho(rnd, i))
            elif flavour == "two":
                r = rnd.random()
                if r < 0.4:
                    sites.append({"type": "spin", "dof": f"a{i}", "qn": [[0, 0], [1, 0]]})
                elif r < 0.8:
                    sites.append({"type": "spin", "dof": f"b{i}", "qn": [[0, 0], [0, 1]]})
                else:
                    sites.append({"type": "elec", "dof": f"e{i}", "qn": [[0, 0], [1, 1]]})
        d = int(np.prod([site_nbas(s) for s in sites]))
        if d <= maxdim:
            return {"flavour": flavour, "qn_size": qn_size, "sites": sites}


def _sho(rnd, i):
    s = {"type": "sho", "dof": f"v{i}", "omega": round(rnd.uniform(0.5, 2.0), 3), "nbas": rnd.randint(2, 4)}
    if rnd.random() < 0.3:
        s["x0"] = round(rnd.uniform(-1.0, 1.0), 3)
    return s


def gen_term(rnd, sites, qn_size, max_body=3, charge=None, hermitian_factors=False, scale=1.0):
    """One product term.  charge=None: arbitrary; charge=[...]: total charge forced to that value if possible
    (else returns None)."""
    nbody = rnd.randint(1, min(max_body, len(sites)))
    idx = sorted(rnd.sample(range(len(sites)), nbody))
    rnd.shuffle(idx) if rnd.random() < 0.3 else None
    syms, dofs, qns = [], [], []
    for i in idx:
        s, d, q, _ = elementary(sites[i], rnd, qn_size, neutral_only=False)
        syms.append(s)
        dofs += d
        qns += q
    tot = [sum(q[c] for q in qns) for c in range(qn_size)]
    if charge is not None and tot != list(charge):
        return None
    mag = 10 ** rnd.uniform(-2, 1) * scale
    if scale != 1.0 and rnd.random() < 0.3:
        mag = 10 ** rnd.uniform(-7, 1) * scale      # couplings spanning many orders of magnitude (only in "units" runs)
    r6 = (lambda v: round(v, 6)) if scale == 1.0 else (lambda v: float(f"{v:.6g}"))
    if rnd.random() < 0.25:
        f = [r6(mag * rnd.uniform(-1, 1)), r6(mag * rnd.uniform(-1, 1))]
    else:
        f = [r6(mag * rnd.choice([-1, 1])), 0.0]
    return {"sym": " ".join(syms), "dofs": [list(d) if isinstance(d, tuple) else d for d in dofs], "factor": f, "qn": qns}


def gen_terms(rnd, sites, qn_size, nmin=1, nmax=6, charge=None, scale=1.0):
    out = []
    tries = 0
    n = rnd.randint(nmin, nmax)
    while len(out) < n and tries < 200:
        tries += 1
        t = gen_term(rnd, sites, qn_size, charge=charge, scale=scale)
        if t is not None:
            out.append(t)
            if rnd.random() < 0.15:  # duplicates / partial cancellation
                t2 = dict(t)
                t2["factor"] = [float(f"{-t['factor'][0] * rnd.choice([1.0, 0.5]):.6g}") if scale != 1.0 else round(-t["factor"][0] * rnd.choice([1.0, 0.5]), 6), t["factor"][1]]
                out.append(t2)
    return out


def adjoint_term(ts, sites):
    """Spec of the Hermitian conjugate of a product term (symbol-wise), or None if not expressible."""
    adj = {"X": "X", "Y": "Y", "Z": "Z", "sigma_x": "sigma_x", "sigma_z": "sigma_z", "sigma_+": "sigma_-", "sigma_-": "sigma_+",
           r"a^\dagger": "a", "a": r"a^\dagger", "x": "x", "x^2": "x^2", "p^2": "p^2", "n": "n", "p": "p", "x^3": "x^3",
           "b": r"b^\dagger", r"b^\dagger": "b", r"b^\dagger b": r"b^\dagger b", "I": "I"}
    parts = ts["sym"].split(" ")
    if any(p not in adj for p in parts):
        return None
    # reverse order within the term (different sites commute; same-site factors must be reversed)
    new = {"sym": " ".join(adj[p] for p in reversed(parts)), "dofs": list(reversed(ts["dofs"])),
           "factor": [ts["factor"][0], -ts["factor"][1]], "qn": [[-x for x in q] for q in reversed(ts["qn"])]}
    return new


def gen_hamiltonian(rnd, sites, qn_size, nmin=2, nmax=6, scale=1.0):
    """Hermitian, charge-conserving term list: on-site Hermitian terms + (T + T^dagger) pairs."""
    zero = [0] * qn_size
    terms = []
    n = rnd.randint(nmin, nmax)
    tries = 0
    while len(terms) < n and tries < 300:
        tries += 1
        if rnd.random() < 0.5:
            i = rnd.randrange(len(sites))
            s, d, q, herm = elementary(sites[i], rnd, qn_size, hermitian_only=True)
            f = round(rnd.uniform(-1, 1) * scale, 6)
            terms.append({"sym": s, "dofs": [list(x) if isinstance(x, tuple) else x for x in d], "factor": [f, 0.0], "qn": q})
        else:
            t = gen_term(rnd, sites, qn_size, max_body=3, charge=zero, scale=0.3 * scale)
            if t is None:
                continue
            a = adjoint_term(t, sites)
            if a is None:
                continue
            terms += [t, a]
    if not terms:
        i = 0
        s, d, q, herm = elementary(sites[i], rnd, qn_size, hermitian_only=True)
        terms.append({"sym": s, "dofs": [list(x) if isinstance(x, tuple) else x for x in d], "factor": [1.0, 0.0], "qn": q})
    return terms


def reachable_sectors(model):
    """All total charges realised by at least one product basis state, as sorted list of lists."""
    from simlab.ref import dense
    q = dense.site_charges(model)
    return sorted({tuple(r) for r in q.tolist()})


def gen_density_terms(rnd, sites, qn_size):
    """Model Hamiltonian of density-density type with EQUAL couplings: sum_i c d_i + sum_{i<j} c d_i d_j over random subsets,
    where d_i is ONE fixed neutral Hermitian single-site operator per site (number operator, Z, ...)."""
    local = []
    for site in sites:
        sy, d, q, _h = elementary(site, rnd, qn_size, neutral_only=True, hermitian_only=True)
        local.append((sy, [list(z) if isinstance(z, tuple) else z for z in d], q))
    c = rnd.choice([1.0, 1.0, -1.0, 0.5])
    n = len(sites)
    terms = []
    for i in range(n):
        if rnd.random() < 0.5:
            sy, d, q = local[i]
            terms.append({"sym": sy, "dofs": list(d), "factor": [c, 0.0], "qn": [list(x) for x in q]})
    for i in range(n):
        for j in range(i + 1, n):
            if rnd.random() < 0.4:
                terms.append({"sym": local[i][0] + " " + local[j][0], "dofs": list(local[i][1]) + list(local[j][1]), "factor": [c, 0.0],
                              "qn": [list(x) for x in local[i][2]] + [list(x) for x in local[j][2]]})
    return terms


def gen_stress_terms(rnd, sites, nterms):
    """Production-size term list on a few two-level sites: thousands of terms, hundreds of DISTINCT local operator strings per site
    (the symbolic algorithms index local operators and bond labels with small integers)."""
    alphabet = ["X", "Y", "Z", "sigma_+", "sigma_-", "sigma_x", "sigma_z"]
    terms, seen = [], set()
    tries = 0
    while len(terms) < nterms and tries < 20 * nterms:
        tries += 1
        syms, dofs, qns = [], [], []
        for st in sites:
            if rnd.random() < 0.75:
                k = rnd.choice([1, 2, 3, 3])
                for _ in range(k):
                    syms.append(rnd.choice(alphabet)); dofs.append(st["dof"]); qns.append([0])
        key = (tuple(syms), tuple(dofs))
        if not syms or key in seen:
            continue
        seen.add(key)
        terms.append({"sym": " ".join(syms), "dofs": dofs, "factor": [round(rnd.uniform(-1, 1), 5) or 0.3, 0.0], "qn": qns})
    return terms
