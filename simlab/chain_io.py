"""C14 (persistence part) on the chain world: dump/load round trips of states and density operators with scheduled I/O faults,
and the spill-to-disk mechanism of site tensors under mkdir/open/write/remove faults, object death and GC events.

SimFS (simlab/seams/fs.py) is installed on the run's scratch directory only while the library call under test runs; every
file-system mutation below it is an event the fault schedule of the step can hit.
"""
import gc
import os

import numpy as np

from simlab.core import HarnessError, Violation
from simlab.chain import op, prop, V, nonzero, tens, sweep_ready, OPS, PROPOSERS
from simlab.ref import dense
from simlab.seams.fs import SimFS

from renormalizer.mps import Mps, Mpo, MpDm
from renormalizer.utils import CompressConfig, CompressCriteria


def _arm(fs, faults):
    for f in faults or []:
        if "k" in f:
            fs.faults[int(f["k"])] = (f["fault"], f.get("arg", 1))
        else:
            kind, sub = f.get("kind"), f.get("path", "")
            fs.path_faults.append(((lambda k, rel, kind=kind, sub=sub: (kind is None or k == kind) and sub in rel), (f["fault"], f.get("arg", 1)), f.get("count", 1)))


def _account(w, fs):
    n = 0
    for name, c in fs.fired_counts.items():
        w.fault_counts[name] = w.fault_counts.get(name, 0) + c
        n += c
    return n


def _same_state(a, b):
    """bit-exact comparison of everything a later operation depends on"""
    if len(a) != len(b):
        return "number of sites"
    for i in range(len(a)):
        x, y = np.asarray(a[i].array), np.asarray(b[i].array)
        if x.dtype != y.dtype or x.shape != y.shape or not np.array_equal(x, y):
            return f"site tensor {i}"
    if a.is_mps or a.is_mpdm:
        if complex(a.coeff) != complex(b.coeff):
            return f"prefactor {a.coeff!r} -> {b.coeff!r}"
    if a.qnidx != b.qnidx:
        return f"qnidx {a.qnidx} -> {b.qnidx}"
    if bool(a.to_right) != bool(b.to_right):
        return f"to_right {a.to_right} -> {b.to_right}"
    if not np.array_equal(np.asarray(a.qntot), np.asarray(b.qntot)):
        return f"qntot {a.qntot} -> {b.qntot}"
    if len(a.qn) != len(b.qn):
        return "number of bond label lists"
    for i, (p, q) in enumerate(zip(a.qn, b.qn)):
        if not np.array_equal(np.asarray(p), np.asarray(q)):
            return f"bond labels {i}: {np.asarray(p).tolist()} -> {np.asarray(q).tolist()}"
    return None


def _continue(obj, cont, mpo):
    """one further operation; returns arrays that must be bit-identical for the original and the reloaded object"""
    o = obj.copy()
    if cont == "compress":
        o.canonicalise()
        o.compress(temp_m_trunc=max(1, max(o.bond_dims) // 2))
        return [dense.dense_of(o), np.asarray(o.bond_dims)]      # (values, not tensors: the gauge inside degenerate subspaces is free)
    if cont == "normalize":
        o.normalize("mps_and_coeff")
        return [dense.dense_of(o)]
    if cont == "apply" and mpo is not None:
        r = mpo.apply(o)
        return [dense.dense_of(r)]
    if cont == "expectation" and mpo is not None and obj.is_mps:
        return [np.asarray(complex(o.expectation(mpo)))]
    o.ensure_left_canonical()
    return [dense.dense_of(o)]


@op("dump_load")
def op_dump_load(w, s):
    a = s["a"]
    if not w.live_ok(a) or not w.scratch:
        return "skipped"
    e = w.h[a]
    if e.kind not in ("mps", "mpdm"):
        return "skipped"
    path = os.path.join(w.scratch, f"state_{w.step_no}.npz")
    fs = SimFS(w.scratch)
    _arm(fs, s.get("faults"))
    with fs:
        e.obj.dump(path)     # the library logs and swallows a failing dump
    fired = _account(w, fs)
    w.xdigest.add("dump", [(k, kind, n) for (k, kind, rel, n) in fs.log])
    try:
        new = type(e.obj).load(e.obj.model, path)
    except Exception as ex:
        if fired:
            w.stats.probes["load_refused_after_faulty_dump"] += 1
            return "done"
        raise V({"C14"}, "C14.load_raised", f"{type(e.obj).__name__}.load after a fault-free dump: {type(ex).__name__}: {ex}", sig=f"C14.load_raised:{type(ex).__name__}")
    if fired:
        w.stats.probes["load_succeeded_after_faulty_dump"] += 1
    diff = _same_state(e.obj, new)
    if diff:
        raise V({"C14"}, "C14.roundtrip", f"dump/load of {a} ({e.kind}, bonds {e.obj.bond_dims}) changed {diff}" + (" after an injected I/O fault" if fired else ""),
                sig="C14.roundtrip:" + diff.split(" ")[0])
    w.put(s["out"], e.kind, new, e.shadow.copy(), e.mid, dict(e.meta, loaded=True))
    w.check_value(s["out"], {"C14"}, "C14.roundtrip.value")
    # ---- every later operation gives identical results
    mpo = None
    if s.get("mpo") and w.live_ok(s["mpo"]) and w.h[s["mpo"]].kind == "mpo" and w.h[s["mpo"]].mid == e.mid:
        mpo = w.h[s["mpo"]].obj
    cont = s.get("cont", "canon")
    if not nonzero(e):
        return "done"
    np.random.seed(s.get("rngseed", 0) % (2 ** 32))
    try:
        r1 = _continue(e.obj, cont, mpo)
    except Exception:
        return "done"   # the continuation is not applicable to this object (judged by other properties)
    np.random.seed(s.get("rngseed", 0) % (2 ** 32))
    try:
        r2 = _continue(new, cont, mpo)
    except Exception as ex:
        raise V({"C14"}, "C14.continuation_raised", f"{cont} works on the original but fails on the reloaded object: {type(ex).__name__}: {ex}", sig=f"C14.continuation_raised:{cont}:{type(ex).__name__}")
    for x, y in zip(r1, r2):
        # identical up to the last bits: a reloaded tensor is C-contiguous while the original may be a strided view or a spilled
        # array, and BLAS sums in a stride-dependent order (1 ulp differences observed)
        if x.shape != y.shape or float(np.abs(x - y).max() if x.size else 0.0) > 1e-12 * max(float(np.abs(x).max() if x.size else 0.0), 1e-300):
            raise V({"C14"}, "C14.continuation_differs", f"{cont} on the reloaded object differs from the same operation on the original (max diff {float(np.abs(x - y).max()) if x.shape == y.shape else 'shape'})",
                    sig=f"C14.continuation_differs:{cont}")
    w.stats.probes["roundtrip_continuation:" + cont] += 1
    return "done"


def _spill_dirs(w):
    out = []
    try:
        for name in sorted(os.listdir(w.scratch)):
            if name.isdigit() and os.path.isdir(os.path.join(w.scratch, name)):
                out.append(name)
    except OSError:
        pass
    return out


@op("spill_session")
def op_spill_session(w, s):
    """Enable spilling for one object and run a short history on it while the fault schedule of the step is armed."""
    a = s["a"]
    if not w.live_ok(a) or not w.scratch:
        return "skipped"
    e = w.h[a]
    if not nonzero(e):
        return "skipped"
    obj = e.obj
    w.changed.add(a)
    fs = SimFS(w.scratch)
    _arm(fs, s.get("faults"))
    refused = None
    with fs:
        try:
            obj.compress_config.dump_matrix_dir = w.scratch
            obj.compress_config.dump_matrix_size = s.get("size", 0)
            for i in range(len(obj)):
                obj[i] = obj[i]
            for act in s.get("acts", []):
                if act == "canonicalise":
                    if sweep_ready(obj):
                        obj.canonicalise()
                elif act == "rewrite":
                    for i in range(len(obj)):
                        obj[i] = obj[i].array * 1.0
                elif act == "copy_drop":
                    c = obj.copy()
                    del c
                elif act == "scale":
                    obj.scale(2.0, inplace=True)
                    e.shadow = e.shadow * 2.0
                elif act == "read":
                    for i in range(len(obj)):
                        obj[i].array.sum()
        except (RuntimeError, OSError) as ex:
            refused = ex
    fired = _account(w, fs)
    w.xdigest.add("spill", [(k, kind) for (k, kind, rel, n) in fs.log])
    if fired:
        # a failing rmtree/remove may legitimately leave files of a dead temporary behind
        live = {str(id(x.obj)) for x in w.h.values()}
        w.io_excused = getattr(w, "io_excused", set()) | {d for d in _spill_dirs(w) if d not in live}
    if refused is not None:
        if not fired:
            raise V({"C14"}, "C14.spill.raised", f"spill session without any injected fault raised {type(refused).__name__}: {refused}", sig=f"C14.spill.raised:{type(refused).__name__}")
        # a loud failure after an injected fault is allowed; the object may be half-updated: it leaves the population
        w.stats.probes["spill_refused_after_fault"] += 1
        e.tainted = True
        return "done"
    w.stats.probes["spilled_tensors"] += sum(isinstance(x, str) for x in obj._mp)
    if fired:
        w.stats.probes["spill_survived_fault"] += 1
    # never wrong data: faults may only make the library fall back to memory
    w.check_value(a, {"C14", "C13"}, "C14.spill.value", what="object with spilled tensors" + (" after injected faults" if fired else ""))
    return "done"


@op("spill_gc")
def op_spill_gc(w, s):
    """Death of objects: after drop (+ collection) no spill directory of a dead object is left and no directory of a live
    object is lost or touched."""
    if s.get("a") in w.h:
        del w.h[s["a"]]
    if s.get("collect"):
        gc.collect()
    live = {str(id(e.obj)): k for k, e in w.h.items()}
    for d in _spill_dirs(w):
        if d not in live and d not in getattr(w, "io_excused", set()):
            # not a violation of C14 (temporary files left behind, e.g. when compress_config was replaced after spilling): counted only
            w.stats.probes["spill_dir_left_behind"] += 1
            w.io_excused = getattr(w, "io_excused", set()) | {d}
    for k, e in w.h.items():
        if e.kind in ("mps", "mpo", "mpdm") and not e.tainted:
            for x in e.obj._mp:
                if isinstance(x, str) and not os.path.exists(x):
                    raise V({"C14", "C13"}, "C14.spill.lost_file", f"{k}: spill file {os.path.basename(os.path.dirname(x))}/{os.path.basename(x)} of a live object is gone", sig="C14.spill.lost_file")
    return "done"


# ------------------------------------------------------------------------------------------------ proposals

FAULTS = ["eio", "enospc", "eacces"]


def _gen_faults(rnd, kinds):
    out = []
    r = rnd.random()
    if r < 0.45:
        return out
    if r < 0.75:
        out.append({"k": rnd.randrange(0, 24), "fault": rnd.choice(FAULTS + ["short"]), "arg": rnd.randrange(1, 64)})
    else:
        out.append({"kind": rnd.choice(kinds), "path": "", "fault": rnd.choice(FAULTS), "count": rnd.choice([1, 1, 2, 100])})
    return out


@prop("dump_load")
def p_dump_load(w, rnd):
    hs = w.handles("mps") + w.handles("mpdm")
    if not hs or not w.scratch:
        return None
    a = rnd.choice(hs)
    mpos = [x for x in w.handles("mpo") if w.h[x].mid == w.h[a].mid]
    return {"op": "dump_load", "a": a, "out": w.new_handle(), "faults": _gen_faults(rnd, ["open_w", "write"]),
            "cont": rnd.choice(["compress", "normalize", "apply", "expectation", "canon"]), "mpo": rnd.choice(mpos) if mpos else None}


@prop("spill_session")
def p_spill_session(w, rnd):
    hs = [x for x in w.handles() if nonzero(w.h[x])]
    if not hs or not w.scratch:
        return None
    acts = [rnd.choice(["canonicalise", "rewrite", "copy_drop", "scale", "read"]) for _ in range(rnd.randint(0, 3))]
    return {"op": "spill_session", "a": rnd.choice(hs), "size": rnd.choice([0, 0, 64, 256]), "acts": acts,
            "faults": _gen_faults(rnd, ["mkdir", "open_w", "write", "remove", "rmtree"])}


@prop("spill_gc")
def p_spill_gc(w, rnd):
    hs = list(w.h)
    return {"op": "spill_gc", "a": rnd.choice(hs) if hs and rnd.random() < 0.7 else None, "collect": rnd.random() < 0.6}
