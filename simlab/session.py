"""Generic session runner for world-based profiles (chain world, tree world).

generate mode: header <- profile.gen_header(rnd); loop: step <- profile.propose(world, rnd); world.execute(step)
replay mode  : executes the recorded header + step list, nothing is drawn from a PRNG.
A Violation whose `props` contain the profile's property id ends the run and is reported; a violation that belongs
to other properties only is counted as "foreign", the shadow of the object is re-synchronised and the run goes on.
"""
import gc
import os
import random
import shutil
import tempfile
import traceback

import numpy as np

from simlab import env
from simlab.core import Violation, HarnessError, Stats, Digest, jsonable
from simlab.ref import dense


class Profile:
    pid = None
    world_cls = None

    def gen_header(self, rnd, tier):
        raise NotImplementedError

    def nsteps(self, rnd, tier):
        return rnd.randint(8, 30)

    def weights(self, header):
        raise NotImplementedError

    def propose(self, world, rnd, weights):
        raise NotImplementedError

    def install_seams(self, world, header):
        return []

    def nontrivial_key(self, world, step):
        return None


def _run(profile, header, steps, rnd, nsteps, tier):
    stats = Stats()
    digest = Digest()
    pid = profile.pid
    scratch = tempfile.mkdtemp(prefix=f"{pid}_", dir=env.scratch_root())
    res = {"status": "ok"}
    executed = []
    keys = set()
    gc.disable()
    seams = []
    world = None
    try:
        digest.add("header", header)
        world = profile.world_cls(header, stats, scratch=scratch)
        seams = profile.install_seams(world, header) or []
        weights = profile.weights(header) if steps is None else None
        i = 0
        while True:
            if steps is None:
                if i >= nsteps:
                    break
                step = profile.propose(world, rnd, weights)
                if step is None:
                    break
            else:
                if i >= len(steps):
                    break
                step = steps[i]
            i += 1
            executed.append(step)
            try:
                status = world.execute(step)
            except Violation as v:
                props = getattr(v, "props", {pid})
                if pid in props:
                    res.update(status="violation", violation={"inv": v.inv, "detail": v.detail, "sig": v.sig, "step": len(executed) - 1,
                                                               "op": step.get("op"), "props": sorted(props)})
                    break
                stats.probes["foreign:" + v.inv] += 1
                _resync(world, v)
                status = "foreign"
            except HarnessError:
                raise
            except Exception as ex:
                # an exception out of a library call whose documented preconditions held
                inv = f"{pid}.unexpected_exception"
                op = step.get("op")
                sub = step.get("which") or step.get("scheme") or ""
                res.update(status="violation", violation={"inv": inv, "detail": f"step {len(executed) - 1} {op} {sub}: {type(ex).__name__}: {ex}\n" + traceback.format_exc()[-1500:],
                                                           "sig": f"{inv}:{op}:{sub}:{type(ex).__name__}", "step": len(executed) - 1, "op": op})
                break
            digest.add(step.get("op"), status, _fingerprint(world))
            k = profile.nontrivial_key(world, step) if status == "done" else None
            if k:
                keys.add(k)
    finally:
        for sm in seams:
            try:
                sm.uninstall()
            except Exception:
                pass
        if world is not None:
            for sname, n in getattr(world, "fault_counts", {}).items():
                stats.faults[sname] += n
            world.h.clear()
        gc.collect()
        gc.enable()
        shutil.rmtree(scratch, ignore_errors=True)
    res["plan"] = {"header": header, "steps": executed}
    res["nsteps"] = len(executed)
    res["evaluations"] = len(executed)
    res["digest"] = digest.hex()
    if world is not None and hasattr(world, "xdigest"):
        res["xdigest"] = world.xdigest.hex()
    res["stats"] = stats.to_dict()
    res["nontrivial_keys"] = sorted(keys)
    return res


def _resync(world, v):
    h = v.data.get("handle") if hasattr(v, "data") else None
    targets = [h] if h in world.h else list(world.created) + list(world.changed)
    for t in targets:
        if t in world.h:
            try:
                world.h[t].shadow = world.dense_of(world.h[t]) if hasattr(world, "dense_of") else dense.dense_of(world.h[t].obj)
            except Exception:
                del world.h[t]


def _fingerprint(world):
    """Cheap, deterministic observable summary of the population after a step (feeds the run digest)."""
    out = []
    for k in sorted(world.h):
        e = world.h[k]
        sh = e.shadow
        out.append((k, e.kind, tuple(sh.shape), float(np.round(np.linalg.norm(sh.ravel()), 10)), repr(sh.ravel()[:3].tolist())))
    return out


def generate_and_run(profile, seed, index, tier):
    rnd = random.Random(seed)
    header = profile.gen_header(rnd, tier)
    header["tier"] = tier
    n = profile.nsteps_for(header, rnd, tier) if hasattr(profile, "nsteps_for") else profile.nsteps(rnd, tier)
    return _run(profile, header, None, rnd, n, tier)


def replay(profile, plan):
    return _run(profile, plan["header"], plan["steps"], None, None, plan["header"].get("tier", "quick"))
