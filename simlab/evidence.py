"""Evidence files: written by the driver on every run, validated before exit."""
import json
import os
import subprocess

from simlab import env


def abridge_plan(plan, note=None):
    p = {}
    for k, v in plan.items():
        if k == "steps":
            p["steps"] = v[:12]
            if len(v) > 12:
                p["steps_omitted"] = len(v) - 12
        else:
            p[k] = v
    if note:
        p["note"] = note
    s = json.dumps(p, default=repr)
    if len(s) > 6000:
        p = {"abridged": s[:6000]}
    return p


def build(pid, tier, base, reg, results, stats, evaluations, nontrivial_keys, digests, samples, nsteps, wall,
          nviol, nknown, nerr, nnondet, nrecheck, workers, components):
    runs = len(results)
    cov = {
        "evaluations": int(evaluations),
        "distinct_nontrivial": int(len(nontrivial_keys)),
        "rule": reg["rule"],
        "samples": samples if samples else [{"note": "no sample plan recorded"}],
        "exhaustive": bool(reg.get("exhaustive", False)),
        "runs": runs,
        "steps": int(nsteps),
        "runs_per_hour": round(runs / wall * 3600, 1) if wall > 0 else 0,
        "steps_per_hour": round(nsteps / wall * 3600, 1) if wall > 0 else 0,
        "simulated_time_covered": stats.get("sim_time", 0.0),
        "simulated_job_steps": stats.get("sim_steps", 0),
        "operations": stats.get("ops", {}),
        "faults_fired": stats.get("faults", {}),
        "probes": stats.get("probes", {}),
        "max_measured_over_allowed": stats.get("ratios", {}),
        "distinct_run_digests": len(digests),
        "determinism_recheck": {"rechecked_in_fresh_interpreters": nrecheck, "mismatches": nnondet},
        "hash_seed_classes": list(env.HASH_CLASSES),
        "workers": workers,
        "seams": reg.get("seams", []),
        "components": components,
        "known_findings_reported": nknown,
        "harness_errors": nerr,
    }
    return {
        "property_id": pid, "tier": tier, "seed": int(base), "level": reg["level"], "coverage": cov,
        "assumptions": reg["assumptions"], "wall_s": round(wall, 2), "violations": int(nviol),
    }


def _minimal_validate(ev):
    for k in ("property_id", "tier", "seed", "level", "coverage", "wall_s"):
        if k not in ev:
            return False
    c = ev["coverage"]
    return (isinstance(c.get("evaluations"), int) and c["evaluations"] >= 1 and isinstance(c.get("distinct_nontrivial"), int)
            and c["distinct_nontrivial"] >= 2 and isinstance(c.get("rule"), str) and isinstance(c.get("samples"), list) and len(c["samples"]) >= 1)


def write(pid, ev):
    d = os.path.join(env.VERIF, "evidence")
    os.makedirs(d, exist_ok=True)
    path = os.path.join(d, f"{pid}.json")
    tmp = path + ".tmp"
    with open(tmp, "w") as f:
        json.dump(ev, f, indent=1, default=repr)
    os.replace(tmp, path)
    ok = _minimal_validate(ev)
    schema = "/root/.vp/EVIDENCE.schema.json"
    if ok and os.path.exists(schema):
        code = ("import json,sys,jsonschema;"
                "jsonschema.validate(json.load(open(sys.argv[1])), json.load(open(sys.argv[2])))")
        try:
            r = subprocess.run(["python3-vt", "-c", code, path, schema], capture_output=True, text=True, timeout=60)
            if r.returncode != 0 and "No module named" not in r.stderr:
                print(r.stderr[-1500:])
                ok = False
        except (OSError, subprocess.TimeoutExpired):
            pass
    if not ok:
        print(f"evidence validation failed for {path}: evaluations={ev['coverage'].get('evaluations')} "
              f"distinct_nontrivial={ev['coverage'].get('distinct_nontrivial')}")
    return ok
