"""Per-property texts for MANIFEST.json (kept next to the registry)."""

NOT_APPLICABLE = {
    "C19": "literal Runge-Kutta/Taylor coefficient tables: no schedule, clock, I/O, fault or history can influence them; deciding the order conditions is a finite symbolic computation (a different technique). C09's order test observes consequences for propagation but is not a decision of C19.",
    "C20": "bipartite_vertex_cover is a pure function of a finite graph; validity+minimality for every graph is decided by exhaustive small-scope enumeration (bounded model checking), not by seeded simulation; a non-minimum cover leaves every simulated oracle satisfied.",
}
_PENDING = "check not built yet in this revision of /verif; claimed in DESIGN.md, will be registered when its profile is committed"
for _p in ["C01", "C02", "C03", "C04", "C05", "C06", "C07", "C08", "C09", "C10", "C11", "C12", "C13", "C15", "C16", "C17", "C18"]:
    NOT_APPLICABLE.setdefault(_p, _PENDING)

LEVEL_TEXT = {
    "C14": "Exhaustive enumeration of every file-system crash point (incl. torn prefixes of every raw write) of bounded real TdMpsJob runs, judged against the 'a complete current-or-previous result file remains' oracle; crash->restart->crash histories sampled (quick) or enumerated (thorough, 25% of runs); I/O-error histories; bounded liveness; bit-exact dump/load round trips of generated states. Exhaustive for the single-crash space of each generated job, sampled over job configurations.",
}
LEVEL_NOTE = {
    "C14": "Trusted: numpy.load as the definition of 'loadable'; crash model = process death at system-call granularity with page-cache semantics (no power loss / fsync modelling); snapshot engine cross-validated against a fork+_exit engine on sampled crash points in every run; np.save's array payload uses ndarray.tofile and bypasses the write seam (spill files only, not the result file).",
}
TECHNIQUE = {
    "C14": "deterministic simulation: SimFS crash-point enumeration + seeded I/O-fault and restart histories",
}

_CHAIN_NOTE = ("Trusted: numpy/scipy dense algebra; BasisSet.op_mat / sigmaqn as definitions of local matrices and charges; the harness's own "
               "dense contraction of site tensors (simlab/ref/dense.py).  Inputs are sampled (strength of seeded random testing); the simulation "
               "dimension is the session history: population sharing models, gauge moves by other holders between steps, RNG position, GC events.")
LEVEL_TEXT.update({
    "C03": "Seeded sessions over a population of states/operators/density operators: every arithmetic result is compared with dense algebra on the shadows (1e-9 relative to operand norms), after arbitrary gauge histories of the operands, and is then canonicalised and losslessly compressed on a scratch copy (deferred oracle that exposes wrong bond labels). Exploration: samples histories, not exhaustive.",
    "C04": "Seeded gauge histories: canonicalise(stop_idx)/ensure_*/lossless compress (incl. idempotence and via config) on objects produced by arithmetic; represented value unchanged to 1e-9, isometry of every swept site recomputed from tensors to 1e-10 (operators: orthogonal columns, see DESIGN), no bond growth, physical-dimension cap after two opposite sweeps.",
    "C05": "Truncating compress (five ways of giving the limit) on canonical states drawn from session histories, judged against dense SVD spectra at every cut: bond <= limit, norm non-increase, max_k tail_k <= err <= sqrt(sum tail_k^2), first-bond singular values equal dense ones. Theorem-based bounds, so no calibration constants.",
    "C06": "Monitor attached to every step of the chain sessions: dense weight outside the declared sector is zero, operators change the charge by exactly their declared total, and the stored bond labels describe the non-zero blocks of every site tensor of every created/changed object.",
    "C13": "After EVERY step of a session the represented value (tensors x prefactor) of every live object that the step was not documented to change is recomputed and compared with its shadow; in-place mutations (site write, scale inplace, spill) must change exactly their target; drop+gc events are scheduled steps.",
})
for _p in ("C03", "C04", "C05", "C06", "C13"):
    LEVEL_NOTE[_p] = _CHAIN_NOTE
    TECHNIQUE[_p] = "deterministic simulation of API-call histories on a shared object population with dense reference model (seeded schedule search, ddmin replay)"

LEVEL_TEXT["C15"] = "Seeded expression programs over a pool of Op/OpSum objects (all public arithmetic operators, six scalar types on either side, products, simplify with tolerances, squeeze_identity, copy, aliasing, in-place +=): every result equals the matrix expression of the operand matrices to 1e-10 of the summand magnitudes, every pool member is re-evaluated after every step, ==/hash consistency. Exploration of programs; no fault kind applies."
LEVEL_NOTE["C15"] = "Trusted: BasisSet.op_mat as the denotation of elementary symbols; same-site oscillator products are excluded (they are defined only up to the documented truncation, see C16). Pure in-memory algebra: the simulation dimension is program order and aliasing only."
TECHNIQUE["C15"] = "deterministic simulation of expression programs with aliasing against a dense denotation (seeded search, ddmin replay)"
LEVEL_TEXT["C16"] = "Sessions over SHARED basis instances interleaving supported requests, raising requests and use inside Model/Mpo: (i) every returned matrix equals that of a fresh identically-constructed instance (history independence incl. after exceptions), (ii) defining relations (written-order products, commutators, powers, shifted-origin/DVR/general-power consistency, sine-DVR integrals by quadrature, Pauli algebra, multi-electron placement), (iii) Holstein/spin-boson/TI builders vs harness-assembled Hamiltonians and spectra across schemes. (ii),(iii) are sampled inputs."
LEVEL_NOTE["C16"] = "Trusted: numpy/scipy (quad, eigvalsh); relations are checked on the sub-block unaffected by basis truncation; only (i) is a schedule property, (ii)/(iii) have the strength of seeded random testing."
TECHNIQUE["C16"] = "deterministic simulation of call histories on shared mutable basis objects (incl. failing calls) + sampled relation checks"

LEVEL_TEXT["C01"] = "Seeded sessions dominated by Mpo construction (QR / Hopcroft-Karp / Hungarian, offsets, complex factors, duplicates, cancellations, multi-DoF sites) compared with the dense sum of Kronecker products, and by sequences of adjacent-site swaps carried by one operator object (three swap algorithms, interleaved with copies), compared with the dense site permutation; construction must not consume the global RNG and its tensors must be bit-identical under two PYTHONHASHSEED classes."
LEVEL_NOTE["C01"] = _CHAIN_NOTE + " try_swap_site is only offered on operators whose numeric tensors are still in sync with their symbolic form (freshly built or copied; in-place canonicalise/compress de-synchronise it - documented API limitation)."
TECHNIQUE["C01"] = "deterministic simulation of construction + swap histories against a dense reference (seeded search, ddmin replay)"
LEVEL_TEXT["C18"] = "Kernel invocations on generated structured inputs with scheduled LAPACK failures: expm_krylov vs scipy expm (2e-6 relative; degenerate/rank-deficient/diagonal spectra, invariant-subspace starts, block sizes 2-50, real/imaginary dt of both signs, eigh_tridiagonal failing so the dense fallback runs), svd_qn/eigh_qn (SVD/QR, both systems, full/economic, optimised completion) for orthonormality, exact restoration of the symmetry-allowed part, labels, sorting, with the first SVD driver failing so the gesvd fallback runs."
LEVEL_NOTE["C18"] = "Trusted: scipy.linalg.expm / svdvals.  Probes for every exit branch (buffer growth, full-space, structured early exit, convergence, both LAPACK fallbacks) are reported non-zero in the evidence."
TECHNIQUE["C18"] = "deterministic simulation with injected LAPACK failures at scheduled calls + seeded structured inputs"

LEVEL_TEXT["C07"] = "Observables of states and density operators drawn from session histories (any gauge, complex, un-normalised, spilled): expectation / transition amplitudes, batched expectations on generated operator LISTS (shared prefixes, duplicates, scaled copies, permutations, pool operators) through fast and slow path, occupations through the per-model operator cache, 1-/2-site and electronic RDMs, 1-site/2-site/mutual/bond entropies - all against dense partial traces; SimHash narrows Matrix.__hash__ to 1-16 bits so the collision branch of the cache is exercised (must refuse loudly or be right)."
LEVEL_NOTE["C07"] = _CHAIN_NOTE + " RDM index convention: rho or its transpose is accepted (documented formula and electronic-RDM formula use opposite conventions)."
TECHNIQUE["C07"] = "deterministic simulation of observation histories with narrowed-hash fault injection against dense partial traces"

_EVO_NOTE = ("Trusted: scipy expm / DOP853; the harness's dense RK/Taylor stepper (fed with the LIBRARY's own tableau) as layer-1 reference. Accuracy is judged only "
             "when the state's bonds carry, in every charge sector, as many states as the sector allows and the limit permits it (then TDVP is exact); otherwise only "
             "bond-limit / sector / conservation / non-disturbance invariants are judged. Bounds: P&C family 6x^(p+1)/(p+1)! (clean max 1/6), PS/PS2 1e-8 (Krylov) or 20*ivp_rtol*x, "
             "VMF 20*ivp_rtol*x+3*sqrt(reg_epsilon), CMF 2.5x^3 / 3x^2, adaptive 20*adaptive_rtol; measured/allowed maxima are in the evidence. A deterministic budget of 4000 RHS "
             "evaluations per local ODE solve (seam on renormalizer.mps.mps.solve_ivp) ends stiff regularised steps reproducibly.")
LEVEL_TEXT["C09"] = "Seeded evolution histories on generated models: every scheme (Taylor P&C orders 2-6, TD-RK4, all ten RK tableaux incl. embedded adaptive pairs, TDVP-PS/PS2 with three local solvers, VMF/MU-VMF, CMF first/second order/trapezoid, force_ovlp, adaptive flags), real time of both signs, time-dependent Hamiltonian callbacks (sample times checked against tableau nodes), carried configs, states of any gauge/complex/prefactor/density-operator form; each call judged against the dense propagator applied to the state before the call (two layers), plus pairwise oracles (solver A vs B, adaptive vs fixed, t vs t/2+t/2, halving order test), one-site PS norm/energy conservation at any bond dimension, bond limits."
LEVEL_NOTE["C09"] = _EVO_NOTE
TECHNIQUE["C09"] = "deterministic simulation of evolution call histories with per-call dense-propagator oracle, SimClock callback and ODE-budget seam"

LEVEL_TEXT["C10"] = "As C09 in imaginary time: evolve(-i tau) for states and purified density operators in every scheme that supports it (Taylor P&C, TDVP-PS/PS2, VMF/MU-VMF, CMF), complex and real Hamiltonians, non-zero energy offsets, judged per call against the normalised dense exp(-tau H) applied to the state before the call; thermal-propagation jobs (ThermalProp stepped by the simulator) against dense Gibbs averages; closed-form vibrational propagator and evolve_exact (with offsets) against dense matrix exponentials."
LEVEL_NOTE["C10"] = _EVO_NOTE
TECHNIQUE["C10"] = "deterministic simulation of imaginary-time / thermal job histories with per-call dense-propagator and Gibbs oracles"

LEVEL_TEXT["C08"] = "optimize_mps on generated models and sectors with generated sweep schedules (1-/2-site, direct / Davidson forced through a cut-off knob, 1-4 roots, omega targeting, stacked operators), under Davidson early stops, LAPACK failures in the blocked SVD and arbitrary RNG positions: every reported value of every sweep obeys the Poincare bound against sector-restricted exact diagonalisation, returned states are normalised, in the sector and within the bond limits, and energies coincide with exact diagonalisation when the guess spans the sector, the limit reaches the sector ranks and the schedule converged."
LEVEL_NOTE["C08"] = _CHAIN_NOTE + " Bound tolerance 1e-9*||H|| for direct diagonalisation, 1e-6*||H|| when Davidson ran (single-pass Gram-Schmidt). The knob never pushes Davidson below a symmetry-masked local dimension of 24 (it keeps 12+nroots vectors)."
TECHNIQUE["C08"] = "deterministic simulation of optimisation histories with eigensolver/LAPACK fault injection against exact diagonalisation"

LEVEL_TEXT["C17"] = "(a) random symmetric one-/two-electron integrals (1-3 spatial orbitals, sparse/vanishing blocks, stacked/flat, with/without quantum numbers) through int_to_h + qc_model + Mpo against a second-quantised matrix assembled from the harness's own anticommuting operators, Hermiticity and [H,N_alpha]=[H,N_beta]=0; (b) swap SCHEDULES: optimize_mps and two-site TDVP with on-the-fly swapping under the natural criteria (OFS-S/D/D-S/debug) and under scheduler-forced legal decisions (SimSwap), plus direct try_swap_site sequences: afterwards the re-ordered operator equals the original in the new order (fermionic sign map for Jordan-Wigner models, checked against two independent references), energies obey the variational bound of the unchanged spectrum, the state permuted back follows the un-swapped exact trajectory."
LEVEL_NOTE["C17"] = _CHAIN_NOTE + " Swapping is only offered for plain Model objects with single-DoF sites, a two-site method and the fixed criterion (library preconditions)."
TECHNIQUE["C17"] = "deterministic simulation of swap schedules (natural + scheduler-forced decisions) against fermionic / permutation reference models"

_TREE_NOTE = ("Trusted: numpy/scipy dense algebra; BasisSet.op_mat / sigmaqn; the harness's own recursive contraction of node tensors "
              "(simlab/tree.py:dense_tree, independent of TTNS/TTNO.todense, which is itself checked against it).  Topologies, models and states are sampled "
              "(strength of seeded random testing); the simulation dimension is the session history over several trees sharing the same basis-set objects: "
              "scratch re-parenting inside expectation(), gauge moves by other holders, RNG position, GC events.")
LEVEL_TEXT["C02"] = ("Seeded sessions over 1-4 topologies built on the SAME basis-set objects (explicit random parent vectors with 0-3 basis sets per node and dummy root/internal/leaf nodes, "
                     "the same tree with permuted child order, linear/binary/T3NS/binary- and ternary-MCTDH constructors with and without primitive contraction): every TTNO of real term lists "
                     "(three bipartite algorithms) equals the dense sum of Kronecker products to 1e-9, the same term list on another topology and the chain MPO give the same matrix, "
                     "TTNO.todense(order) agrees with the harness contraction, constructors keep every basis set exactly once, construction draws nothing from the global RNG.")
LEVEL_TEXT["C11"] = ("Seeded sessions over tree states on several topologies: add / + (incl. different prefactors), scale (in place or not), copy/to_complex, TTNO.apply / @ (optionally canonicalising), "
                     "canonicalise (isometry of every non-root node to 1e-10), lossless compress, from_mps (with prefactor, complex), norm/ttns_norm, expectation of TTNO/Op/OpSum (twice in a row), "
                     "todense(order), 1-site RDMs and entropies of selected nodes, 1-dof and 2-dof RDMs, bond entropies: all equal the dense-vector results to 1e-9 (entropies 1e-7); every arithmetic "
                     "result is re-checked after canonicalise + lossless compress on a scratch copy; sector and stored-label monitor (C06) and bystander monitor (C13) run after every step; "
                     "tree compress with truncation is judged by Eckart-Young bounds over all edges (C05); dump/load round trip (C14).")
LEVEL_TEXT["C12"] = ("All four tree schemes, real and imaginary time, multi-step histories (evolved states are evolved again, after arithmetic and gauge moves), judged against the dense propagator: "
                     "P&C-RK4 by 6x^5/5!, VMF by the ODE tolerances + regularisation, projector splitting by 1e-8 where the integrator is provably exact (bonds exactly at the sector caps and an exactness centre, "
                     "simlab/ref/exactness.py) and by 0.25 x^3 where only the tangent space is complete, there also by an order probe (one-step errors for tau, tau/2, tau/4 from the same input must fall by about 8 per halving; "
                     "30% of the worlds are rejection-sampled to contain a branching tree and a sector away from the exactness condition); one-site PS conserves norm and energy at any bond dimension; sector conservation by the C06 monitor; "
                     "the input state must be left untouched (C13); lock-step runs of the chain implementation and the linear tree of from_mps for 1-3 steps with all schemes.")
for _p in ("C02", "C11", "C12"):
    LEVEL_NOTE[_p] = _TREE_NOTE
    TECHNIQUE[_p] = "deterministic simulation of API-call histories on a population of tree tensor networks over shared basis objects with a dense reference model (seeded schedule search, ddmin replay)"
LEVEL_NOTE["C12"] += "  Bounds are judged only for x = ||H|| dt in [0.02, 0.5]; constants were calibrated on the unchanged tree with >10x margin (max measured/allowed is recorded in the evidence)."

LEVEL_TEXT["C05"] += " One run in three is a tree session: TTNS.compress with a bond limit (direct or via CompressConfig) judged by the same bounds over every edge of the tree."
LEVEL_TEXT["C06"] += " One run in four is a tree session (TTNS arithmetic, compression, all four tree evolution schemes, purified states): dense weight outside the sector and the stored labels of every node are checked after every step."
LEVEL_TEXT["C13"] += " One run in three is a tree session: TTNS/TTNO bystanders and inputs (incl. the input of TTNS.evolve and the scratch re-parenting inside expectation()) are re-checked after every step."
