"""Per-property texts for MANIFEST.json (kept next to the registry)."""

NOT_APPLICABLE = {
    "C19": "literal Runge-Kutta/Taylor coefficient tables: no schedule, clock, I/O, fault or history can influence them; deciding the order conditions is a finite symbolic computation (a different technique). C09's order test observes consequences for propagation but is not a decision of C19.",
    "C20": "bipartite_vertex_cover is a pure function of a finite graph; validity+minimality for every graph is decided by exhaustive small-scope enumeration (bounded model checking), not by seeded simulation; a non-minimum cover leaves every simulated oracle satisfied.",
}
_PENDING = "check not built yet in this revision of /verif; claimed in DESIGN.md, will be registered when its profile is committed"
for _p in ["C01", "C02", "C03", "C04", "C05", "C06", "C07", "C08", "C09", "C10", "C11", "C12", "C13", "C15", "C16", "C17", "C18"]:
    NOT_APPLICABLE.setdefault(_p, _PENDING)

LEVEL_TEXT = {
    "C14": "Exhaustive enumeration of every file-system crash point (incl. torn prefixes of every raw write) of bounded real TdMpsJob runs, judged against the 'a complete current-or-previous result file remains' oracle; crash->restart->crash histories sampled (quick) or enumerated (thorough, 25% of runs); I/O-error histories; bounded liveness; bit-exact dump/load round trips of generated states. Exhaustive for the single-crash space of each generated job, sampled over job configurations.",
}
LEVEL_NOTE = {
    "C14": "Trusted: numpy.load as the definition of 'loadable'; crash model = process death at system-call granularity with page-cache semantics (no power loss / fsync modelling); snapshot engine cross-validated against a fork+_exit engine on sampled crash points in every run; np.save's array payload uses ndarray.tofile and bypasses the write seam (spill files only, not the result file).",
}
TECHNIQUE = {
    "C14": "deterministic simulation: SimFS crash-point enumeration + seeded I/O-fault and restart histories",
}
