"""In-process debugging:  python -m simlab.debug C14 quick 0 5   (runs indices 0..4 in this interpreter)"""
import sys, time, json
from simlab import env
env.setup_worker()
import importlib
from simlab.registry import REGISTRY

def main():
    pid, tier, a, b = sys.argv[1], sys.argv[2], int(sys.argv[3]), int(sys.argv[4])
    mod = importlib.import_module(REGISTRY[pid]["module"])
    base = env.base_seed()
    for i in range(a, b):
        t = time.time()
        try:
            r = mod.generate_and_run(env.run_seed(base, i, pid), i, tier)
        except Exception:
            import traceback; traceback.print_exc(); print("index", i); continue
        r.pop("nontrivial_keys", None)
        plan = r.pop("plan", None)
        print(i, f"{time.time()-t:.2f}s", r["status"], r.get("digest"), "eval", r.get("evaluations"), json.dumps(r.get("stats", {}).get("probes")), json.dumps(r.get("stats", {}).get("faults")))
        if r["status"] != "ok":
            v=r.get("violation") or {}; print("   ", v.get("inv"), "|", v.get("sig"), "| step", v.get("step"), v.get("op"), "|", str(v.get("detail", r.get("error")))[:(3000 if "-v" in sys.argv else 400)].replace("\n", " ~ "))
            if "-v" in sys.argv: print(json.dumps(plan)[:3000])
main()
