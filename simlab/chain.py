"""Chain world: a simulated user session over a population of Mps / MpDm / Mpo objects that share models, basis
sets and configs, with a dense shadow (reference model) per handle.  Used by C03 C04 C05 C06 C07 C13 (and, through
chain_evolve.py, C09 C10 C08 C17).

A *step* is a JSON-able dict {"op": name, ...args}.  `propose_*` functions draw a step from the scheduler's PRNG given
the current world (so only operations whose documented preconditions hold are offered); `World.execute` runs a
recorded step (skipping it if its handles are gone or preconditions no longer hold, which makes ddmin sound).
After every step the represented value of EVERY live object is compared with its shadow (C13) and sector / label
invariants are evaluated (C06).
"""
import gc
import os
import random

import numpy as np
import scipy.linalg

from simlab.core import Violation, HarnessError, relerr
from simlab.ref import dense
from simlab.gen import models as gm

from renormalizer.mps import Mps, Mpo, MpDm
from renormalizer.mps.backend import backend
from renormalizer.utils import Quantity, CompressConfig, CompressCriteria

TOL = 1e-9
ISO_TOL = 1e-10


def V(props, inv, detail, sig=None, **data):
    v = Violation(inv, detail, sig or inv, data)
    v.props = set(props)
    return v


class Entry:
    __slots__ = ("kind", "obj", "shadow", "mid", "tainted", "meta", "_magkey", "_mag")

    def __init__(self, kind, obj, shadow, mid, meta=None):
        self.kind, self.obj, self.shadow, self.mid = kind, obj, shadow, mid
        self.tainted = False
        self.meta = meta or {}


class World:
    def __init__(self, header, stats, scratch=None):
        self.header = header
        self.stats = stats
        self.model_specs = list(header["models"])
        self.bases, self.models = [], []
        for spec in self.model_specs:
            if "holstein" in spec:
                from simlab.chain_thermal import build_holstein
                m = build_holstein(spec["holstein"])
                self.models.append(m)
                self.bases.append(list(m.basis))
            else:
                basis = [gm.build_basis(s) for s in spec["sites"]]
                self.bases.append(basis)
                self.models.append(gm.build_model(spec, basis))
        self.h = {}
        self.nh = 0
        self.scratch = scratch
        self.knobs = header.get("knobs", {})
        self.step_no = -1
        self.changed = set()     # handles the current step is documented to change
        self.created = set()
        self.foreign = []
        self.lapack = None          # SimLAPACK seam (installed by profiles that use it)
        self.fault_counts = {}
        from simlab.core import Digest
        self.xdigest = Digest()   # digest of results that must be bit-identical under every PYTHONHASHSEED class

    # ------------------------------------------------------------ helpers
    def new_handle(self):
        self.nh += 1
        return f"h{self.nh}"

    def put(self, handle, kind, obj, shadow, mid, meta=None):
        self.h[handle] = Entry(kind, obj, np.asarray(shadow), mid, meta)
        self.created.add(handle)
        if self.knobs.get("spill_prob", 0) and self.scratch:
            pass
        return handle

    def pd(self, mid, kind="mps"):
        p = dense.pdims(self.models[mid])
        return [x * x for x in p] if kind in ("mpo", "mpdm") else p

    def handles(self, kind=None, mid=None, pred=None):
        out = []
        for k, e in self.h.items():
            if e.tainted:
                continue
            if kind is not None and e.kind not in (kind if isinstance(kind, (tuple, list)) else (kind,)):
                continue
            if mid is not None and e.mid != mid:
                continue
            if pred is not None and not pred(e):
                continue
            out.append(k)
        return out

    def live_ok(self, *hs):
        return all(x in self.h and not self.h[x].tainted for x in hs)

    # ------------------------------------------------------------ invariants
    def check_value(self, handle, props, inv, extra_scale=0.0, tol=TOL, what=""):
        e = self.h[handle]
        got = dense.dense_of(e.obj)
        ref = e.shadow
        if got.shape != ref.shape:
            raise V(props, inv, f"{what} {handle}: shape {got.shape} vs reference {ref.shape}", handle=handle)
        with np.errstate(all="ignore"):
            scale = max(float(np.linalg.norm(ref.ravel())), float(np.linalg.norm(got.ravel())), extra_scale, 1e-300)
            err = float(np.linalg.norm((got - ref).ravel()))
        if not err <= tol * scale:
            # objects may represent a small value with large tensors (e.g. a - a built from terms of size 1e8): rounding errors of
            # later sweeps are proportional to the magnitude of the REPRESENTATION, measured by contracting the absolute values
            scale = max(scale, rep_magnitude(e.obj))
        r = self.stats.ratio(inv, err, tol * scale)
        if not err <= tol * scale:
            raise V(props, inv, f"{what} {handle} ({e.kind}): |got-ref|={err:.3e} scale={scale:.3e} (allowed {tol:g} rel)", handle=handle)
        if handle in self.created or handle in self.changed:
            # the reference of an operation is accurate relative to the OPERAND scale; from now on the bystander monitor compares
            # the object with what it actually represented when it was last (documentedly) written
            e.shadow = got

    def check_all_untouched(self):
        for hname in list(self.h):
            e = self.h[hname]
            if e.tainted or hname in self.changed or hname in self.created:
                continue
            self.check_value(hname, {"C13"} | ({"C14"} if e.meta.get("loaded") else set()), "C13.bystander_or_input_changed",
                             what=f"step {self.step_no} ({self.cur_op}) was not documented to change" + (" the RELOADED object" if e.meta.get("loaded") else ""))

    def check_sector_and_labels(self, handle):
        e = self.h[handle]
        if e.tainted:
            return
        obj = e.obj
        model = obj.model
        props = {"C06"} | ({"C03"} if self.cur_op in ARITH_OPS else set()) | ({"C04"} if self.cur_op in GAUGE_OPS else set())
        if obj.qn is None or obj.qntot is None:
            return
        n = len(obj)
        qntot = np.asarray(obj.qntot).reshape(-1)
        # --- labels: convert everything to L-system labels
        L = []
        for j in range(n + 1):
            q = np.asarray(obj.qn[j]).reshape(-1, len(qntot))
            L.append(q if j <= obj.qnidx else qntot.reshape(1, -1) - q)
        dims = obj.bond_dims
        for j in range(n + 1):
            if L[j].shape[0] != dims[j]:
                raise V(props, "C06.labels.length", f"{handle}: bond {j} has dimension {dims[j]} but {L[j].shape[0]} labels (op {self.cur_op})", handle=handle)
        if np.any(L[0] != 0) or np.any(L[n] != qntot.reshape(1, -1)):
            raise V(props, "C06.labels.boundary", f"{handle}: boundary labels {L[0].tolist()} / {L[n].tolist()} inconsistent with total charge {qntot.tolist()} (op {self.cur_op})", handle=handle)
        for i in range(n):
            a = np.asarray(obj[i].array)
            sq = np.asarray(model.basis[i].sigmaqn).reshape(model.basis[i].nbas, -1)
            if a.ndim == 3:
                loc = sq
                a3 = a
            else:
                if e.kind == "mpo":
                    loc = (sq[:, None, :] - sq[None, :, :]).reshape(-1, sq.shape[1])
                else:
                    loc = (sq[:, None, :] + 0 * sq[None, :, :]).reshape(-1, sq.shape[1])
                a3 = a.reshape(a.shape[0], -1, a.shape[-1])
            want = L[i][:, None, None, :] + loc[None, :, None, :] - L[i + 1][None, None, :, :]
            bad = np.any(want != 0, axis=-1)
            amax = float(np.abs(a3).max()) if a3.size else 0.0
            leak = float(np.abs(a3[bad]).max()) if bad.any() and a3.size else 0.0
            if leak > 1e-12 * max(amax, 1e-300) and leak > 1e-14:
                raise V(props, "C06.labels.block_mismatch",
                        f"{handle} ({e.kind}) site {i}: non-zero block (|a|={leak:.2e}, max {amax:.2e}) where stored bond labels forbid it "
                        f"(centre {obj.qnidx}, to_right {obj.to_right}, op {self.cur_op})", handle=handle)
        # --- dense sector
        if e.kind == "mps":
            mask = dense.sector_mask(model, qntot)
            v = e.shadow
            out = float(np.linalg.norm(v[~mask])) if (~mask).any() else 0.0
            tot = float(np.linalg.norm(v))
            if out ** 2 > 1e-20 * tot ** 2 + 1e-24:
                raise V({"C06"}, "C06.sector.leak", f"{handle}: weight {out:.3e} (of {tot:.3e}) outside sector {qntot.tolist()} after {self.cur_op}", handle=handle)
        elif e.kind == "mpo":
            # operator of charge q maps sector s -> s+q : check block structure of the dense matrix
            ch = dense.site_charges(model)
            m = e.shadow
            diff = ch[:, None, :] - ch[None, :, :]
            ok = np.all(diff == qntot.reshape(1, 1, -1), axis=-1)
            out = float(np.abs(m[~ok]).max()) if (~ok).any() else 0.0
            if out > 1e-10 * max(float(np.abs(m).max()), 1e-300):
                raise V({"C06"} | props, "C06.operator.charge", f"{handle}: operator has matrix elements ({out:.2e}) that do not change the charge by its declared total {qntot.tolist()} (op {self.cur_op})", handle=handle)

    def check_isometries(self, handle, props, direction, sites, tol=ISO_TOL):
        e = self.h[handle]
        for i in sites:
            a = np.asarray(e.obj[i].array)
            if direction == "L":
                m = a.reshape(-1, a.shape[-1])
                g = m.conj().T @ m
            else:
                m = a.reshape(a.shape[0], -1)
                g = m @ m.conj().T
            if e.kind == "mpo":
                # operators: the library deliberately spreads norm / singular values over the sites
                # (mp.py:_update_ms), so the advertised form is "orthogonal columns", i.e. a diagonal Gram matrix
                d = np.real(np.diag(g)).copy()
                keep = d > 1e-28 * max(float(d.max()), 1e-300)   # zero singular values kept by a lossless compress give zero columns
                g = g[np.ix_(keep, keep)]
                d = d[keep]
                g = g / np.sqrt(np.outer(d, d))
            dev = float(np.abs(g - np.eye(g.shape[0])).max()) if g.size else 0.0
            self.stats.ratio("C04.isometry", dev, tol)
            if dev > tol:
                raise V(props, "C04.isometry", f"{handle} ({e.kind}) site {i} is not a {direction}-isometry after {self.cur_op}: max dev {dev:.2e}", handle=handle)

    # ------------------------------------------------------------ execution
    def execute(self, step):
        op = step["op"]
        fn = OPS.get(op)
        if fn is None:
            raise HarnessError(f"unknown op {op}")
        self.step_no += 1
        self.cur_op = op
        self.changed = set()
        self.created = set()
        np.random.seed(step.get("rngseed", 0) % (2 ** 32))
        status = fn(self, step)
        if status == "skipped":
            self.stats.ops["skipped"] += 1
            return status
        self.stats.ops[op] += 1
        # in-place numeric changes de-synchronise the symbolic form that try_swap_site rebuilds the two sites from
        if op != "swap":
            for hname in self.changed:
                if hname in self.h:
                    self.h[hname].meta.pop("symbolic", None)
                    if op in ("scale", "alias_mutate"):
                        self.h[hname].meta.pop("hermitian", None)  # a complex/negative factor changes what the operator is
        # --- whole-population invariants
        for hname in list(self.created) + list(self.changed):
            if hname in self.h:
                self.check_sector_and_labels(hname)
        self.check_all_untouched()
        return status


ARITH_OPS = {"add", "sub", "scale", "apply", "conj", "conj_trans", "copy", "to_complex", "mpdm_apply"}
GAUGE_OPS = {"canonicalise", "ensure", "compress_lossless", "move_qnidx", "normalize"}

OPS = {}


def op(name):
    def deco(f):
        OPS[name] = f
        return f
    return deco


# =====================================================================================================
# preconditions (documented / asserted by the library)

def rep_magnitude(obj):
    """Norm of the network contracted with the absolute values of its tensors (times |prefactor|): an upper bound for the size of the
    numbers that cancel inside the representation."""
    try:
        res = np.ones((1, 1))
        for i in range(len(obj)):
            a = np.abs(np.asarray(obj[i].array))
            res = np.tensordot(res, a.reshape(a.shape[0], -1, a.shape[-1]), axes=(1, 0)).reshape(-1, a.shape[-1])
        mag = float(np.linalg.norm(res))
        if obj.is_mps or obj.is_mpdm:
            mag *= abs(complex(obj.coeff))
        return mag
    except Exception:
        return 0.0


def enorm(obj, t):
    """Norm of the tensor part `t` of `obj`, but not smaller than 1e-3 of the magnitude of its representation: scalar results computed
    from a network that cancels internally carry rounding errors relative to that magnitude (1e-9 * (1e-3 mag)^2 ~ 5 eps mag^2)."""
    n = float(np.linalg.norm(np.asarray(t).ravel()))
    mag = rep_magnitude(obj)
    c = abs(complex(obj.coeff)) if (obj.is_mps or obj.is_mpdm) else 1.0
    return max(n, 1e-3 * mag / max(c, 1e-300))


def sweep_ready(obj):
    n = len(obj)
    return (obj.to_right and obj.qnidx == 0) or ((not obj.to_right) and obj.qnidx == n - 1)


def site_tensors_nonzero(obj):
    return all(np.asarray(obj[i].array).any() for i in range(len(obj)))


def is_canonical_for_compress(obj):
    if obj.is_mpo:
        return True
    if obj.qnidx == len(obj) - 1:
        return obj.check_left_canonical()
    return obj.check_right_canonical()


def nonzero(e):
    """A usable operand: not (numerically) zero, and not a cancellation remainder whose value has lost more than four digits relative
    to the numbers stored in its tensors (e.g. a - a built from terms of size 1e8): nothing can be demanded of such objects."""
    nv = float(np.linalg.norm(e.shadow.ravel()))
    if nv <= 1e-8:
        return False
    if getattr(e, "_magkey", None) is not e.shadow:
        e._mag = rep_magnitude(e.obj) if hasattr(e.obj, "is_mps") else 0.0
        e._magkey = e.shadow
    return nv > 1e-4 * e._mag


# =====================================================================================================
# create

@op("mpo")
def op_mpo(w, s):
    model = w.models[s["mid"]]
    terms = [gm.build_op(t) for t in s["terms"]]
    offset = s.get("offset", 0.0)
    ref = dense.dense_op(model, terms, offset)
    rng_before = np.random.get_state()[1].copy()
    try:
        mpo = Mpo(model, terms, offset=Quantity(offset), algo=s.get("algo", "qr"))
    except ValueError as ex:
        # the zero operator has no matrix-product form with positive bond dimension: refusing it is legitimate
        if float(np.abs(ref).max()) < 1e-14:
            w.stats.probes["zero_operator_refused"] += 1
            return "skipped"
        raise
    if not np.array_equal(rng_before, np.random.get_state()[1]):
        raise V({"C01"}, "C01.mpo.consumes_rng", "Mpo construction drew from the global numpy random stream")
    w.put(s["out"], "mpo", mpo, ref, s["mid"], {"terms": s["terms"], "offset": offset, "symbolic": True})
    w.check_value(s["out"], {"C01"}, "C01.mpo.dense", what=f"Mpo(algo={s.get('algo', 'qr')})", extra_scale=float(sum(abs(t.factor) for t in terms)) + abs(offset))
    w.xdigest.add("mpo", [np.asarray(mpo[i].array) for i in range(len(mpo))][0].shape, *[np.asarray(mpo[i].array) for i in range(len(mpo))])
    rmax = float(np.abs(ref).max())
    dm = dense.dense_of(mpo)
    if rmax > 0 and float(np.abs(ref - ref.conj().T).max()) <= 1e-13 * rmax and float(np.abs(dm - dm.conj().T).max()) > 1e-9 * rmax:
        raise V({"C01"}, "C01.mpo.hermiticity", "Hermitian term list gave a non-Hermitian MPO")
    return "done"


@op("mpo_shared")
def op_mpo_shared(w, s):
    """The SAME term objects (built once) are used to construct operators for two models that group the degrees of freedom into
    sites differently: nothing may be remembered on the term objects from the first construction."""
    terms = [gm.build_op(t) for t in s["terms"]]
    if s["mid"] >= len(w.models) or s["twin"] >= len(w.models):
        return "skipped"
    order = [s["mid"], s["twin"]] if s.get("order", "ab") == "ab" else [s["twin"], s["mid"]]
    for mid, out in zip(order, s["outs"]):
        model = w.models[mid]
        ref = dense.dense_op(model, terms)
        if float(np.abs(ref).max()) < 1e-14:
            return "skipped"
        try:
            mpo = Mpo(model, terms, algo=s.get("algo", "qr"))
        except Exception as ex:
            raise V({"C01"}, "C01.mpo_shared.raised", f"Mpo with shared term objects on model {mid}: {type(ex).__name__}: {ex}", sig=f"C01.mpo_shared.raised:{type(ex).__name__}")
        w.put(out, "mpo", mpo, ref, mid, {"terms": s["terms"], "offset": 0.0, "symbolic": True})
        w.check_value(out, {"C01"}, "C01.mpo_shared.dense", what=f"Mpo(algo={s.get('algo')}) from term objects shared with another model",
                      extra_scale=float(sum(abs(t.factor) for t in terms)))
    w.stats.probes["mpo_shared_pairs"] += 1
    return "done"


@op("swap")
def op_swap(w, s):
    """Exchange two adjacent sites of an operator built from terms (in place, as on-the-fly swapping does)."""
    if not w.live_ok(s["a"]):
        return "skipped"
    e = w.h[s["a"]]
    if e.kind != "mpo" or not e.meta.get("symbolic") or not nonzero(e):
        return "skipped"     # (an operator whose terms cancel to rounding noise has no value to preserve)
    n = len(e.obj)
    i = s["i"]
    if not (0 <= i < n - 1):
        return "skipped"
    old_model = e.obj.model
    basis = list(old_model.basis)
    basis[i], basis[i + 1] = basis[i + 1], basis[i]
    from renormalizer.model import Model
    new_model = Model(basis, old_model.ham_terms)
    spec = dict(w.model_specs[e.mid])
    sites = list(spec["sites"])
    sites[i], sites[i + 1] = sites[i + 1], sites[i]
    spec["sites"] = sites
    pd_old = dense.pdims(old_model)
    perm = list(range(n))
    perm[i], perm[i + 1] = perm[i + 1], perm[i]
    rng_before = np.random.get_state()[1].copy()
    bonds_before = list(e.obj.bond_dims)
    w.changed.add(s["a"])
    try:
        e.obj.try_swap_site(new_model, swap_jw=False, algo=s.get("algo", "Hopcroft-Karp"))
    except Exception as ex:
        raise V({"C01", "C17"}, "C01.swap.raised", f"try_swap_site({i},{i + 1}) algo={s.get('algo')}: {type(ex).__name__}: {ex}", sig=f"C01.swap.raised:{type(ex).__name__}")
    if not np.array_equal(rng_before, np.random.get_state()[1]):
        raise V({"C01"}, "C01.swap.consumes_rng", "try_swap_site drew from the global numpy random stream")
    e.shadow = dense.permute_sites_op(e.shadow, pd_old, perm)
    w.models.append(new_model)
    w.model_specs.append(spec)
    w.bases.append(basis)
    e.mid = len(w.models) - 1
    if e.obj.model is not new_model:
        raise V({"C01", "C17"}, "C01.swap.model", "operator does not carry the new model after the swap")
    try:
        w.check_value(s["a"], {"C01", "C17"}, "C01.swap.dense", what=f"swap sites {i},{i + 1} (algo={s.get('algo')})")
    except Violation as v:
        facs = [abs(complex(*t["factor"])) for t in e.meta.get("terms", []) if abs(complex(*t["factor"])) > 0]
        if s.get("algo") == "qr" and facs and min(facs) < 1e-9:
            # call-site class of a recorded finding: swapping with the QR algorithm prunes relative to the pass-through entries (1.0) of its
            # table, i.e. terms whose ABSOLUTE factor is below ~1e-10 are lost whatever the scale of the operator
            v.sig = "C01.swap.dense:qr:abs_factor_below_1e-9"
        raise
    w.xdigest.add("swap", *[np.asarray(e.obj[k].array) for k in range(n)])
    w.stats.probes["site_swaps"] += 1
    return "done"


@op("mpo_identity")
def op_mpo_identity(w, s):
    model = w.models[s["mid"]]
    w.put(s["out"], "mpo", Mpo.identity(model), np.eye(dense.dim(model), dtype=complex), s["mid"])
    w.check_value(s["out"], {"C01", "C03"}, "C01.identity.dense")
    return "done"


@op("mps_random")
def op_mps_random(w, s):
    model = w.models[s["mid"]]
    qntot = s["qntot"]
    mask = dense.sector_mask(model, qntot)
    if not mask.any():
        return "skipped"
    try:
        mps = Mps.random(model, np.array(qntot) if len(qntot) > 1 else int(qntot[0]), s["m"], percent=s.get("percent", 1.0))
    except Exception as ex:  # sector may be unreachable from the left with the chosen bond list
        w.stats.probes["mps_random_failed:" + type(ex).__name__] += 1
        return "skipped"
    if s.get("complex"):
        mps = mps.to_complex()
        ph = np.exp(1j * np.array(s["phases"][:len(mps)]))
        for i in range(len(mps)):
            mps[i] = mps[i].array * ph[i]
    if "coeff" in s:
        c = complex(*s["coeff"])
        mps.coeff = c if s.get("complex") else c.real
    cc = s.get("compress")
    if cc:
        mps.compress_config = CompressConfig(CompressCriteria.fixed, max_bonddim=cc)
    w.put(s["out"], "mps", mps, dense.dense_of(mps), s["mid"])
    n = float(np.linalg.norm(dense.dense_mps_tensors(mps)))
    if abs(n - 1) > 1e-9:
        raise V({"C06"}, "C06.random.norm", f"Mps.random tensors have norm {n}")
    return "done"


@op("mps_product")
def op_mps_product(w, s):
    model = w.models[s["mid"]]
    cond = {gm._dof(k) if not isinstance(k, str) else k: v for k, v in s["condition"]}
    try:
        mps = Mps.hartree_product_state(model, cond, qn_idx=s.get("qn_idx"))
    except ValueError:
        return "skipped"
    w.put(s["out"], "mps", mps, dense.dense_of(mps), s["mid"])
    return "done"


@op("mpdm_from_mps")
def op_mpdm_from_mps(w, s):
    if not w.live_ok(s["a"]) or w.h[s["a"]].kind != "mps":
        return "skipped"
    e = w.h[s["a"]]
    mpdm = MpDm.from_mps(e.obj)
    ref = np.diag(e.shadow)
    w.put(s["out"], "mpdm", mpdm, ref, e.mid)
    w.check_value(s["out"], {"C03", "C10"}, "C03.mpdm_from_mps.dense")
    return "done"


# =====================================================================================================
# derive (must not disturb inputs)

def _binary_ok(w, s, same_kind=True):
    a, b = s["a"], s["b"]
    if not w.live_ok(a, b):
        return False
    ea, eb = w.h[a], w.h[b]
    if ea.mid != eb.mid:
        return False
    if same_kind and ea.kind != eb.kind:
        return False
    return True


@op("add")
def op_add(w, s):
    if not _binary_ok(w, s):
        return "skipped"
    ea, eb = w.h[s["a"]], w.h[s["b"]]
    if len(ea.obj) < 2 or not np.all(np.asarray(ea.obj.qntot) == np.asarray(eb.obj.qntot)):
        return "skipped"
    sign = -1.0 if s.get("sub") else 1.0
    if s.get("sub") and not site_tensors_nonzero(eb.obj):
        return "skipped"     # a - b negates b with scale(), which refuses (asserts) an operand whose centre tensor vanishes: zero objects are not operands
    res = (ea.obj - eb.obj) if s.get("sub") else (ea.obj + eb.obj)
    ref = ea.shadow + sign * eb.shadow
    scale = float(np.linalg.norm(ea.shadow.ravel()) + np.linalg.norm(eb.shadow.ravel()))
    w.put(s["out"], ea.kind, res, ref, ea.mid)
    w.check_value(s["out"], {"C03"}, "C03.add.dense", extra_scale=scale, what="a-b" if s.get("sub") else "a+b")
    deferred(w, s["out"], scale)
    return "done"


@op("scale")
def op_scale(w, s):
    if not w.live_ok(s["a"]):
        return "skipped"
    e = w.h[s["a"]]
    if not np.asarray(e.obj[e.obj.qnidx].array).any():
        return "skipped"
    val = complex(*s["val"])
    if val.imag == 0:
        val = val.real
    if s.get("inplace"):
        e.obj.scale(val, inplace=True)
        e.shadow = e.shadow * val
        w.changed.add(s["a"])
        w.check_value(s["a"], {"C03"}, "C03.scale.dense", what="scale(inplace)")
        return "done"
    res = e.obj.scale(val) if s.get("method", "scale") == "scale" else (e.obj * val if s["method"] == "mul" else val * e.obj)
    w.put(s["out"], e.kind, res, e.shadow * val, e.mid)
    w.check_value(s["out"], {"C03"}, "C03.scale.dense", what="scale")
    deferred(w, s["out"], 0.0)
    return "done"


@op("unary")
def op_unary(w, s):
    if not w.live_ok(s["a"]):
        return "skipped"
    e = w.h[s["a"]]
    which = s["which"]
    if which == "copy":
        res, ref = e.obj.copy(), e.shadow.copy()
    elif which == "conj":
        res, ref = e.obj.conj(), e.shadow.conj()
    elif which == "to_complex":
        res, ref = e.obj.to_complex(), e.shadow.copy()
    elif which == "conj_trans":
        if e.kind != "mpo":
            return "skipped"
        res, ref = e.obj.conj_trans(), e.shadow.conj().T
    else:
        raise HarnessError(which)
    w.cur_op = which
    w.put(s["out"], e.kind, res, ref, e.mid, {"symbolic": True} if (which == "copy" and e.meta.get("symbolic")) else None)
    w.check_value(s["out"], {"C03"}, f"C03.{which}.dense", what=which)
    if which == "to_complex" and not res.is_complex:
        raise V({"C03"}, "C03.to_complex.dtype", "to_complex returned a real object")
    deferred(w, s["out"], 0.0)
    return "done"


@op("apply")
def op_apply(w, s):
    """mpo @ (mps | mpo | mpdm)   or   mpdm.apply(mpo)"""
    a, b = s["a"], s["b"]
    if not w.live_ok(a, b):
        return "skipped"
    ea, eb = w.h[a], w.h[b]
    if ea.mid != eb.mid:
        return "skipped"
    if ea.kind == "mpo":
        if s.get("canonicalise") and not (sweep_ready(eb.obj) and nonzero(ea) and nonzero(eb)
                                            and float(np.linalg.norm((ea.shadow @ eb.shadow).ravel())) > 1e-8):
            return "skipped"
        res = ea.obj @ eb.obj if s.get("matmul") else ea.obj.apply(eb.obj, canonicalise=bool(s.get("canonicalise")))
        ref = ea.shadow @ eb.shadow
        kind = eb.kind
    elif ea.kind == "mpdm" and eb.kind == "mpo":
        res = ea.obj.apply(eb.obj)
        ref = ea.shadow @ eb.shadow
        kind = "mpdm"
    else:
        return "skipped"
    scale = float(np.linalg.norm(ea.shadow.ravel()) * np.linalg.norm(eb.shadow.ravel()))
    w.put(s["out"], kind, res, ref, ea.mid)
    w.check_value(s["out"], {"C03"}, "C03.apply.dense", extra_scale=scale, what=f"{ea.kind}@{eb.kind}")
    # charge bookkeeping (C06): operator of charge q moves the sector by q
    if kind == "mps":
        want = np.asarray(ea.obj.qntot) + np.asarray(eb.obj.qntot)
        if not np.all(np.asarray(res.qntot) == want):
            raise V({"C06", "C03"}, "C06.apply.qntot", f"apply: result total charge {np.asarray(res.qntot).tolist()} != {want.tolist()}")
    deferred(w, s["out"], scale)
    return "done"


@op("contract")
def op_contract(w, s):
    """Mpo.contract(state, algo): compressed operator application; documented not to overwrite its arguments (C13 monitor)."""
    a, b = s["a"], s["b"]
    if not w.live_ok(a, b):
        return "skipped"
    ea, eb = w.h[a], w.h[b]
    if ea.kind != "mpo" or eb.kind not in ("mps", "mpdm") or ea.mid != eb.mid or len(eb.obj) < 2:
        return "skipped"
    if not (sweep_ready(eb.obj) and sweep_ready(ea.obj) and nonzero(ea) and nonzero(eb)):
        return "skipped"
    ref = ea.shadow @ eb.shadow
    scale = float(np.linalg.norm(ea.shadow.ravel()) * np.linalg.norm(eb.shadow.ravel()))
    if float(np.linalg.norm(ref.ravel())) < 1e-8 * scale:
        return "skipped"
    algo = s["algo"]
    cap = max(exact_bond_cap(w.pd(ea.mid, eb.kind)))
    eb.obj.compress_config = CompressConfig(CompressCriteria.fixed, max_bonddim=int(s.get("m") or cap))
    eb.obj.compress_config.vguess_m = tuple(s.get("vguess", (5, 5)))
    w.cur_op = "contract:" + algo
    try:
        res = ea.obj.contract(eb.obj, algo=algo)
    except (AssertionError, ValueError, FloatingPointError) as ex:
        if algo != "variational" and not isinstance(ex, AssertionError):
            raise
        # the variational path truncates operator and state to the tiny guess dimensions first; a guess that vanishes (or undocumented
        # gauge preconditions) is refused loudly: counted, not judged
        w.stats.probes["contract_refused:" + algo] += 1
        return "skipped"
    got = dense.dense_of(res)
    w.put(s["out"], eb.kind, res, got, ea.mid)
    if algo == "svd" and (s.get("m") is None or s["m"] >= cap):
        e_ = float(np.linalg.norm((got - ref).ravel()))
        w.stats.ratio("C03.contract.dense", e_, 1e-9 * scale)
        if e_ > 1e-9 * scale:
            raise V({"C03"}, "C03.contract.dense", f"contract(algo=svd) with a sufficient bond limit differs from operator times state by {e_:.3e} (scale {scale:.3e})")
    w.stats.probes["contract:" + algo] += 1
    return "done"


def deferred(w, handle, scale):
    """Deferred C03 oracle: the result must stay correct when subsequently canonicalised / compressed losslessly."""
    e = w.h[handle]
    if not nonzero(e) or len(e.obj) < 2:
        # zero objects are not admissible operands of gauge operations: remove them from the population
        if not nonzero(e):
            del w.h[handle]
            w.created.discard(handle)
        return
    w.check_sector_and_labels(handle)
    c = e.obj.copy()
    opname = w.cur_op
    try:
        if not sweep_ready(c):
            c.ensure_left_canonical() if (w.step_no % 2 == 0) else c.ensure_right_canonical()
        else:
            c.canonicalise()
        got1 = dense.dense_of(c)
        bd = max(c.bond_dims) + 1
        c.compress(temp_m_trunc=bd)
        got2 = dense.dense_of(c)
    except Exception as ex:
        raise V({"C03"}, "C03.deferred.raised",
                f"result of {opname} cannot be canonicalised/compressed afterwards: {type(ex).__name__}: {ex}", sig=f"C03.deferred.raised:{opname}")
    sc = max(float(np.linalg.norm(e.shadow.ravel())), scale, 1e-300)
    for got, what in ((got1, "canonicalise"), (got2, "lossless compress")):
        err = float(np.linalg.norm((got - e.shadow).ravel()))
        if err > TOL * sc:
            sc = max(sc, rep_magnitude(e.obj))     # cancelling representations: rounding relative to the size of the tensors
        w.stats.ratio("C03.deferred.dense", err, TOL * sc)
        if err > TOL * sc:
            raise V({"C03"}, "C03.deferred.dense", f"result of {opname} changed under subsequent {what}: err {err:.3e} scale {sc:.3e}",
                    sig=f"C03.deferred.dense:{opname}")
    w.stats.probes["deferred_checks"] += 1


# =====================================================================================================
# mutate in place (gauge moves by "another holder")

@op("canonicalise")
def op_canonicalise(w, s):
    if not w.live_ok(s["a"]):
        return "skipped"
    e = w.h[s["a"]]
    obj = e.obj
    n = len(obj)
    if not (sweep_ready(obj) and site_tensors_nonzero(obj) and nonzero(e)):
        return "skipped"
    stop = s.get("stop_idx")
    if stop is not None and not (0 <= stop < n):
        return "skipped"
    before = list(obj.bond_dims)
    was_right = obj.to_right
    start = obj.qnidx
    w.changed.add(s["a"])
    try:
        ret = obj.canonicalise(stop_idx=stop) if stop is not None else obj.canonicalise()
    except Exception as ex:
        raise V({"C04"}, "C04.canonicalise.raised", f"canonicalise(stop_idx={stop}) on n={n} centre={start} to_right={was_right}: {type(ex).__name__}: {ex}",
                sig=f"C04.canonicalise.raised:{type(ex).__name__}")
    if ret is not obj:
        raise V({"C04"}, "C04.canonicalise.return", "canonicalise did not return self")
    w.check_value(s["a"], {"C04"}, "C04.canonicalise.dense", what=f"canonicalise(stop_idx={stop})")
    after = list(obj.bond_dims)
    if any(x > y for x, y in zip(after, before)):
        raise V({"C04"}, "C04.bond_grew", f"canonicalise grew bonds {before} -> {after}")
    if was_right:
        end = stop if stop is not None else n - 1
        sites = range(start, end)
        w.check_isometries(s["a"], {"C04"}, "L", sites)
    else:
        end = stop if stop is not None else 0
        sites = range(end + 1, start + 1)
        w.check_isometries(s["a"], {"C04"}, "R", sites)
    if obj.qnidx != end:
        raise V({"C04"}, "C04.centre", f"after canonicalise(stop_idx={stop}) centre is {obj.qnidx}, expected {end}")
    return "done"


@op("ensure")
def op_ensure(w, s):
    if not w.live_ok(s["a"]):
        return "skipped"
    e = w.h[s["a"]]
    obj = e.obj
    if not (site_tensors_nonzero(obj) and nonzero(e)) or len(obj) < 2:
        return "skipped"
    before = list(obj.bond_dims)
    w.changed.add(s["a"])
    try:
        if s["side"] == "L":
            obj.ensure_left_canonical()
        else:
            obj.ensure_right_canonical()
    except Exception as ex:
        raise V({"C04"}, "C04.ensure.raised", f"ensure_{s['side']}_canonical: {type(ex).__name__}: {ex}", sig=f"C04.ensure.raised:{type(ex).__name__}")
    w.check_value(s["a"], {"C04"}, "C04.ensure.dense", what=f"ensure_{s['side']}")
    n = len(obj)
    # ensure_* is documented to accept what check_*_canonical accepts (backend.canonical_rtol = 1e-5 on the diagonal of
    # the Gram matrix, canonical_atol = 1e-8 off it): an input inside that tolerance is legitimately left untouched
    etol = 1.1 * backend.canonical_rtol + backend.canonical_atol
    if s["side"] == "L":
        w.check_isometries(s["a"], {"C04"}, "L", range(0, n - 1), tol=etol)
        ok = obj.qnidx == n - 1 and not obj.to_right
    else:
        w.check_isometries(s["a"], {"C04"}, "R", range(1, n), tol=etol)
        ok = obj.qnidx == 0 and obj.to_right
    if not ok:
        raise V({"C04"}, "C04.ensure.centre", f"after ensure_{s['side']}: centre {obj.qnidx}, to_right {obj.to_right}")
    if any(x > y for x, y in zip(obj.bond_dims, before)):
        raise V({"C04"}, "C04.bond_grew", f"ensure grew bonds {before} -> {obj.bond_dims}")
    return "done"


@op("move_qnidx")
def op_move_qnidx(w, s):
    if not w.live_ok(s["a"]):
        return "skipped"
    e = w.h[s["a"]]
    if not (0 <= s["k"] < len(e.obj)) or e.obj.qn is None:
        return "skipped"
    w.changed.add(s["a"])
    e.obj.move_qnidx(s["k"])
    w.check_value(s["a"], {"C04", "C03"}, "C04.move_qnidx.dense")
    return "done"


def exact_bond_cap(pd):
    n = len(pd)
    return [min(int(np.prod(pd[:k], dtype=object)), int(np.prod(pd[k:], dtype=object))) for k in range(n + 1)]


@op("compress_lossless")
def op_compress_lossless(w, s):
    if not w.live_ok(s["a"]):
        return "skipped"
    e = w.h[s["a"]]
    obj = e.obj
    if not (sweep_ready(obj) and site_tensors_nonzero(obj) and nonzero(e)) or len(obj) < 2:
        return "skipped"
    w.changed.add(s["a"])
    if not is_canonical_for_compress(obj) or e.kind == "mpo":
        obj.canonicalise()  # documented input requirement of compress
        w.check_value(s["a"], {"C04"}, "C04.canonicalise.dense", what="canonicalise before compress")
    before = list(obj.bond_dims)
    was_right = obj.to_right
    m = max(before) + s.get("slack", 0)
    try:
        for rep in range(1 + int(bool(s.get("twice")))):
            if rep:
                if not sweep_ready(obj):
                    break
            if s.get("via_config"):
                obj.compress_config = CompressConfig(CompressCriteria.fixed, max_bonddim=m)
                obj.compress()
            elif s.get("per_bond"):
                # a limit per bond: every bond may keep what it has (non-uniform list, still lossless)
                obj.compress(temp_m_trunc=[int(b) + s.get("slack", 0) for b in obj.bond_dims])
            else:
                obj.compress(temp_m_trunc=m)
    except Exception as ex:
        raise V({"C04"}, "C04.compress.raised", f"lossless compress: {type(ex).__name__}: {ex}", sig=f"C04.compress.raised:{type(ex).__name__}")
    w.check_value(s["a"], {"C04"}, "C04.compress_lossless.dense", what="compress(M>=ranks)")
    after = list(obj.bond_dims)
    if any(x > y for x, y in zip(after, before)):
        raise V({"C04"}, "C04.bond_grew", f"lossless compress grew bonds {before} -> {after}")
    cap = exact_bond_cap(w.pd(e.mid, e.kind))
    if any(x > c for x, c in zip(after, cap)):
        raise V({"C04"}, "C04.bond_exceeds_physical", f"after two opposite sweeps bonds {after} exceed what the physical dimensions allow {cap}")
    n = len(obj)
    if not s.get("twice"):
        if was_right:
            w.check_isometries(s["a"], {"C04"}, "L", range(0, n - 1))
        else:
            w.check_isometries(s["a"], {"C04"}, "R", range(1, n))
    return "done"


@op("normalize")
def op_normalize(w, s):
    if not w.live_ok(s["a"]):
        return "skipped"
    e = w.h[s["a"]]
    if e.kind == "mpo" or not nonzero(e) or not np.asarray(e.obj[e.obj.qnidx].array).any():
        return "skipped"
    obj = e.obj
    t = dense.dense_mps_tensors(obj) if e.kind == "mps" else dense.dense_mpo_tensors(obj)
    tn = float(np.linalg.norm(t.ravel()))
    if tn < 1e-12:
        return "skipped"
    c = obj.coeff
    kind = s["kind"]
    newc = {"mps_only": c, "mps_and_coeff": c / abs(c), "mps_norm_to_coeff": c * tn}[kind]
    w.changed.add(s["a"])
    obj.normalize(kind)
    e.shadow = t / tn * newc
    w.check_value(s["a"], {"C03", "C04"}, "C03.normalize.dense", what=f"normalize({kind})")
    return "done"


# =====================================================================================================
# truncation (C05)

@op("truncate")
def op_truncate(w, s):
    if not w.live_ok(s["a"]):
        return "skipped"
    src = w.h[s["a"]]
    if not (nonzero(src) and site_tensors_nonzero(src.obj)) or len(src.obj) < 2:
        return "skipped"
    obj = src.obj.copy()
    if not sweep_ready(obj):
        obj.ensure_left_canonical() if s.get("side", "L") == "L" else obj.ensure_right_canonical()
    else:
        obj.canonicalise()
    orig = dense.dense_of(obj)
    n = len(obj)
    pd = w.pd(src.mid, src.kind)
    vec = orig if src.kind == "mps" else dense.op_as_vector(orig, dense.pdims(obj.model))
    spectra = dense.schmidt_spectra(vec, pd)
    mode = s["mode"]
    limit = None
    thr = None
    ret_s = bool(s.get("ret_s"))
    try:
        if mode == "temp_int":
            limit = [s["m"]] * (n + 1)
            out = obj.compress(temp_m_trunc=s["m"], ret_s=ret_s)
        elif mode == "temp_list":
            limit = list(s["mlist"])[:n + 1]
            if len(limit) < n + 1:
                return "skipped"
            out = obj.compress(temp_m_trunc=limit, ret_s=ret_s)
        elif mode == "config_fixed":
            obj.compress_config = CompressConfig(CompressCriteria.fixed, max_bonddim=s["m"])
            out = obj.compress(ret_s=ret_s)
            limit = list(obj.compress_config.max_dims)
        elif mode in ("config_perbond", "config_both_perbond"):
            # a fixed maximum PER BOND given through the configuration object
            limit = list(s["mlist"])[:n + 1]
            if len(limit) < n + 1:
                return "skipped"
            if mode == "config_perbond":
                obj.compress_config = CompressConfig(CompressCriteria.fixed, max_bonddim=max(limit))
            else:
                obj.compress_config = CompressConfig(CompressCriteria.both, threshold=s["thr"], max_bonddim=max(limit))
            obj.compress_config.max_dims = np.array(limit, dtype=int)
            out = obj.compress(ret_s=ret_s)
        elif mode == "config_threshold":
            thr = s["thr"]
            obj.compress_config = CompressConfig(CompressCriteria.threshold, threshold=thr)
            out = obj.compress(ret_s=ret_s)
        elif mode == "config_both":
            thr = s["thr"]
            obj.compress_config = CompressConfig(CompressCriteria.both, threshold=thr, max_bonddim=s["m"])
            out = obj.compress(ret_s=ret_s)
            limit = list(obj.compress_config.max_dims)
        else:
            raise HarnessError(mode)
    except (Violation, HarnessError):
        raise
    except Exception as ex:
        raise V({"C05"}, "C05.compress.raised", f"compress mode={mode}: {type(ex).__name__}: {ex}", sig=f"C05.compress.raised:{type(ex).__name__}")
    s_arr = None
    if ret_s:
        out, s_arr = out
    if out is not obj:
        raise V({"C05"}, "C05.return", "compress did not return self")
    got = dense.dense_of(obj)
    bonds = list(obj.bond_dims)
    if limit is not None:
        for k in range(1, n):
            if bonds[k] > max(1, limit[k]) and bonds[k] > limit[k]:
                raise V({"C05"}, "C05.bond_limit", f"compress mode={mode}: bond {k} has dimension {bonds[k]} > limit {limit[k]} (bonds {bonds}, limits {list(limit)})")
    onorm = float(np.linalg.norm(orig.ravel()))
    gnorm = float(np.linalg.norm(got.ravel()))
    if src.kind != "mpo" and gnorm > onorm * (1 + 1e-9) + 1e-12:
        raise V({"C05"}, "C05.norm_increased", f"compress mode={mode}: norm {onorm:.12g} -> {gnorm:.12g}")
    err = float(np.linalg.norm((got - orig).ravel()))
    if src.kind == "mpo":
        # C05 speaks of states.  Operator compression deliberately leaves the singular values on the swept site
        # (mp.py:_update_ms), so later cuts are truncated in a non-optimal gauge: only the limit is checked.
        w.put(s["out"], src.kind, obj, got, src.mid)
        return "done"
    tails = []
    for k in range(1, n):
        sv = spectra[k - 1]
        mk = bonds[k]
        tails.append(float(np.sqrt(np.sum(sv[mk:] ** 2))) if mk < len(sv) else 0.0)
    lo = max(tails) if tails else 0.0
    hi = float(np.sqrt(np.sum(np.square(tails)))) if tails else 0.0
    slack = 1e-8 * onorm + 1e-12
    w.stats.ratio("C05.err_upper", err, hi * (1 + 1e-8) + slack)
    if err > hi * (1 + 1e-8) + slack:
        raise V({"C05"}, "C05.err_above_discarded_weight", f"compress mode={mode} bonds {bonds}: error {err:.6e} > sqrt(sum tail^2) = {hi:.6e} (tails {['%.3e' % t for t in tails]})")
    if lo > err * (1 + 1e-8) + slack:
        raise V({"C05"}, "C05.err_below_eckart_young", f"compress mode={mode} bonds {bonds}: error {err:.6e} < largest single-bond discarded weight {lo:.6e} - dense reference or kept ranks inconsistent")
    if thr is not None and mode == "config_threshold":
        # threshold semantics: every kept normalised singular value of the *current* state exceeds thr: first bond of the sweep is comparable
        pass
    if s_arr is not None:
        # first bond of the sweep sees the untruncated state: its singular values must equal the dense ones
        first = (n - 1) if not src_to_right(obj, flipped=True) else 1
        sv = spectra[first - 1]
        row = np.asarray(s_arr[0]) * abs(obj.coeff)   # the dense spectra include the scalar prefactor
        row = row[row > 0] if len(row) > len(sv) else row
        m = min(len(row), len(sv))
        d = float(np.abs(np.sort(row)[::-1][:m] - sv[:m]).max()) if m else 0.0
        w.stats.ratio("C05.ret_s", d, 1e-9 * max(onorm, 1e-300))
        if d > 1e-9 * max(onorm, 1e-300):
            raise V({"C05"}, "C05.ret_s", f"compress(ret_s=True): singular values of the first swept bond differ from dense SVD by {d:.3e}")
        if np.any(np.diff(np.asarray(s_arr[0])[:m]) > 1e-12 * max(onorm, 1.0)):
            raise V({"C05", "C18"}, "C05.ret_s.sorted", "singular values returned by compress are not sorted in descending order")
    if any(bonds[k] < len(spectra[k - 1]) and tails[k - 1] > 0 for k in range(1, n)):
        w.stats.probes["truncating_compress"] += 1
    w.put(s["out"], src.kind, obj, got, src.mid)
    return "done"


def src_to_right(obj, flipped=False):
    # after compress the direction has been switched: the sweep that just ran went the opposite way
    return (not obj.to_right) if flipped else obj.to_right


# =====================================================================================================
# observe

@op("observe")
def op_observe(w, s):
    which = s["which"]
    a = s["a"]
    if not w.live_ok(a):
        return "skipped"
    ea = w.h[a]
    w.cur_op = "observe:" + which
    if which in ("dot", "distance", "angle"):
        b = s["b"]
        if not w.live_ok(b):
            return "skipped"
        eb = w.h[b]
        if eb.mid != ea.mid or eb.kind != ea.kind:
            return "skipped"
        if not (nonzero(ea) and nonzero(eb)) and (float(np.linalg.norm(ea.shadow.ravel())) > 1e-8 or float(np.linalg.norm(eb.shadow.ravel())) > 1e-8):
            return "skipped"     # a cancellation remainder (see nonzero): overlaps with it have no accuracy to speak of
        ta = tens(ea)
        tb = tens(eb)
        sc = enorm(ea.obj, ta) * enorm(eb.obj, tb)
        if which == "dot":
            got = ea.obj.dot(eb.obj)
            ref = complex(np.sum(ta * tb))
            cmp_scalar(w, {"C03"}, "C03.dot", got, ref, sc)
        elif which == "angle":
            got = ea.obj.angle(eb.obj)
            ref = abs(complex(np.sum(ta.conj() * tb)))
            cmp_scalar(w, {"C03"}, "C03.angle", got, ref, sc)
        else:
            if ea.kind == "mpo":
                ref = float(np.linalg.norm((ea.shadow - eb.shadow).ravel()))
            else:
                ref = float(np.linalg.norm((ea.shadow - eb.shadow).ravel()))
            l1 = float(np.linalg.norm(ea.shadow.ravel()))
            l2 = float(np.linalg.norm(eb.shadow.ravel()))
            got = ea.obj.distance(eb.obj)
            # distance is computed as sqrt(l1 + l2 - 2 Re<a|b>): absolute accuracy ~ sqrt(eps)*scale near zero
            tol = 1e-9 * (l1 + l2) + (3e-7 * (l1 + l2) if ref < 1e-6 * (l1 + l2) else 0.0)
            if abs(got - ref) > tol:
                raise V({"C03"}, "C03.distance", f"distance {got!r} vs dense {ref!r} (norms {l1:.3g},{l2:.3g})")
    elif which == "norm":
        if ea.kind == "mpo":
            got = ea.obj.mp_norm
            ref = float(np.linalg.norm(ea.shadow.ravel()))
        elif s.get("mp_norm"):
            got = ea.obj.mp_norm
            ref = float(np.linalg.norm(tens(ea).ravel()))
        else:
            got = ea.obj.norm
            ref = float(np.linalg.norm(ea.shadow.ravel()))
        cmp_scalar(w, {"C03"}, "C03.norm", got, ref, ref)
    elif which == "expectation":
        b = s["b"]
        if not w.live_ok(b) or w.h[b].kind != "mpo" or w.h[b].mid != ea.mid or ea.kind == "mpo":
            return "skipped"
        eo = w.h[b]
        bra = s.get("bra")
        t = tens(ea)
        if bra is not None:
            if not w.live_ok(bra) or w.h[bra].kind != ea.kind or w.h[bra].mid != ea.mid:
                return "skipped"
            tb = tens(w.h[bra])
            got = ea.obj.expectation(eo.obj, self_conj=w.h[bra].obj.conj())
        else:
            tb = t
            got = ea.obj.expectation(eo.obj)
        if ea.kind == "mps":
            ref = complex(tb.conj() @ (eo.shadow @ t))
        else:
            ref = complex(np.sum(tb.conj() * (eo.shadow @ t)))
        sc = enorm(ea.obj, t) * (enorm(w.h[bra].obj, tb) if (bra is not None and tb is not t) else enorm(ea.obj, t)) * float(np.linalg.norm(eo.shadow, 2))
        cmp_scalar(w, {"C07", "C03"}, "C07.expectation", got, ref, sc)
        if bra is None and abs(ref.imag) < 1e-12 * max(sc, 1e-300) and isinstance(got, complex) and abs(got.imag) > 1e-9 * sc:
            raise V({"C07"}, "C07.expectation.imag", f"expectation returned {got!r} for a real reference {ref!r}")
    else:
        raise HarnessError(which)
    return "done"


def tens(e):
    return dense.dense_mps_tensors(e.obj) if e.kind == "mps" else dense.dense_mpo_tensors(e.obj)


def cmp_scalar(w, props, inv, got, ref, scale, tol=TOL):
    real_returned = not isinstance(got, complex) and not np.iscomplexobj(got)
    got = complex(got)
    ref = complex(ref)
    if real_returned and abs(ref.imag) <= 1.0001e-8 + 1e-5 * abs(ref.real) * 0:
        # documented: "returns a float if the imaginary part is negligible" (numpy isclose, atol 1e-8)
        ref = complex(ref.real, 0.0)
    err = abs(got - ref)
    allowed = tol * max(scale, abs(ref), 1e-300)
    w.stats.ratio(inv, err, allowed)
    if not err <= allowed:
        raise V(props, inv, f"{w.cur_op}: got {got!r}, dense reference {ref!r}, |diff| {err:.3e} > {allowed:.3e}")


# =====================================================================================================
# environment

@op("drop")
def op_drop(w, s):
    if s["a"] not in w.h:
        return "skipped"
    del w.h[s["a"]]
    if s.get("collect"):
        gc.collect()
        w.stats.probes["gc_collect"] += 1
    return "done"


@op("alias_mutate")
def op_alias_mutate(w, s):
    """'derive b from a, mutate one, observe the other': write into one site tensor of an object."""
    if not w.live_ok(s["a"]):
        return "skipped"
    e = w.h[s["a"]]
    i = s["site"] % len(e.obj)
    a = np.asarray(e.obj[i].array)
    w.changed.add(s["a"])
    e.obj[i] = a * s["factor"]
    e.shadow = e.shadow * s["factor"]
    w.check_value(s["a"], {"C13"}, "C13.self_mutation_model", what="site tensor scaled in place")
    return "done"


@op("regauge")
def op_regauge(w, s):
    """Another holder changes the gauge of one bond through the public item interface: A_k -> A_k G, A_{k+1} -> G^-1 A_{k+1} with a
    well-conditioned G that is block diagonal in the bond labels.  The represented value is unchanged, the canonical form is lost,
    bond dimensions stay (no redundancy)."""
    if not w.live_ok(s["a"]):
        return "skipped"
    e = w.h[s["a"]]
    obj = e.obj
    n = len(obj)
    if n < 2 or not nonzero(e):
        return "skipped"
    k = s["bond"] % (n - 1) + 1          # bond between site k-1 and site k
    a, b = np.asarray(obj[k - 1].array), np.asarray(obj[k].array)
    m = a.shape[-1]
    rs = np.random.RandomState(s["gseed"] % (2 ** 31))
    g = np.eye(m) + 0.3 * (rs.rand(m, m) - 0.5)
    if obj.is_complex:
        g = g + 0.3j * (rs.rand(m, m) - 0.5)
    if obj.qn is not None:
        lab = np.asarray(obj.qn[k]).reshape(m, -1)
        same = np.all(lab[:, None, :] == lab[None, :, :], axis=-1)
        g = np.where(same, g, 0.0)
    ginv = np.linalg.inv(g)
    w.changed.add(s["a"])
    obj[k - 1] = np.tensordot(a, g, axes=(-1, 0))
    obj[k] = np.tensordot(ginv, b, axes=(1, 0))
    w.check_value(s["a"], {"C13", "C03"}, "C03.regauge.model", what="bond gauge changed through the item interface")
    w.stats.probes["regauge"] += 1
    return "done"


@op("spill")
def op_spill(w, s):
    """Turn on per-site spill-to-disk for one object (knob): every later write of a site tensor goes to a file."""
    if not w.live_ok(s["a"]) or not w.scratch:
        return "skipped"
    e = w.h[s["a"]]
    w.changed.add(s["a"])
    e.obj.compress_config.dump_matrix_dir = w.scratch
    e.obj.compress_config.dump_matrix_size = s.get("size", 0)
    for i in range(len(e.obj)):
        e.obj[i] = e.obj[i]  # rewrite through __setitem__ so that tensors above the threshold are spilled now
    nspilled = sum(isinstance(x, str) for x in e.obj._mp)
    w.stats.probes["spilled_tensors"] += nspilled
    w.check_value(s["a"], {"C13", "C14"}, "C14.spill.value")
    return "done"


# =====================================================================================================
# proposals (the seeded scheduler)

def rc(rnd):
    return [round(rnd.uniform(-2, 2), 4), round(rnd.uniform(-2, 2), 4) if rnd.random() < 0.4 else 0.0]


def propose(w, rnd, weights):
    names = list(weights)
    for _ in range(30):
        name = rnd.choices(names, [weights[n] for n in names])[0]
        s = PROPOSERS[name](w, rnd)
        if s is not None:
            s["rngseed"] = rnd.randrange(2 ** 31)
            return s
    return None


PROPOSERS = {}


def prop(name):
    def deco(f):
        PROPOSERS[name] = f
        return f
    return deco


@prop("mpo")
def p_mpo(w, rnd):
    mid = rnd.randrange(len(w.models))
    spec = w.model_specs[mid]
    charge = None
    if rnd.random() < 0.6:
        charge = [0] * spec["qn_size"]
    elif rnd.random() < 0.7:
        charge = [rnd.choice([-1, 1])] + [0] * (spec["qn_size"] - 1)
        rnd.shuffle(charge)
    # "units" knob: the same operator written in other units (cm^-1, Hz, ...) must be represented equally well
    scale = 10.0 ** rnd.choice([-6, -3, 3, 5, 7, 9]) if rnd.random() < w.knobs.get("units_prob", 0.0) else 1.0
    terms = gm.gen_terms(rnd, spec["sites"], spec["qn_size"], 1, 5, charge=charge, scale=scale) if charge is not None else None
    if not terms:
        if charge is None:
            # arbitrary-charge terms only make sense one at a time (a sum of terms of different charge has no total charge)
            t = gm.gen_term(rnd, spec["sites"], spec["qn_size"], scale=scale)
            terms = [t]
        else:
            return None
    if rnd.random() < w.knobs.get("density_prob", 0.0):
        t2 = gm.gen_density_terms(rnd, spec["sites"], spec["qn_size"])
        if t2:
            terms, charge = t2, [0] * spec["qn_size"]
    if rnd.random() < 0.25:
        # model Hamiltonians with EQUAL couplings (Hubbard / Heisenberg-like): exact cancellations and degenerate decompositions
        v = rnd.choice([1.0, 1.0, -1.0, 0.5, 2.0])
        terms = [dict(t, factor=[v if t["factor"][0] >= 0 or rnd.random() < 0.7 else -v, 0.0]) for t in terms]
    return {"op": "mpo", "mid": mid, "terms": terms, "algo": rnd.choice(["qr", "Hopcroft-Karp", "Hungarian"]),
            "offset": rnd.choice([0.0, 0.0, round(rnd.uniform(-1, 1), 3)]) if charge == [0] * spec["qn_size"] else 0.0, "out": w.new_handle()}


@prop("mpo_shared")
def p_mpo_shared(w, rnd):
    twins = [(sp["twin_of"], i) for i, sp in enumerate(w.header["models"]) if "twin_of" in sp]
    if not twins:
        return None
    a, b = rnd.choice(twins)
    spa, spb = w.model_specs[a], w.model_specs[b]
    pair = spb["pair"]
    common = [st for st in spa["sites"] if st.get("dof") not in pair]
    terms = []
    for _ in range(rnd.randint(1, 4)):
        syms, dofs, qns = [], [], []
        if rnd.random() < 0.8:
            x, y = rnd.choice(pair), rnd.choice(pair)
            syms.append(r"a^\dagger a"); dofs += [x, y]; qns += [[1], [-1]]
        for st in rnd.sample(common, min(len(common), rnd.randint(0, 2))):
            sy, d, q, _h = gm.elementary(st, rnd, 1, neutral_only=True)
            syms.append(sy); dofs += [list(z) if isinstance(z, tuple) else z for z in d]; qns += q
        if not syms:
            continue
        terms.append({"sym": " ".join(syms), "dofs": dofs, "factor": [round(rnd.uniform(-1, 1), 4) or 0.5, 0.0], "qn": qns})
    if not terms:
        return None
    return {"op": "mpo_shared", "mid": a, "twin": b, "terms": terms, "order": rnd.choice(["ab", "ba"]), "algo": rnd.choice(["qr", "Hopcroft-Karp", "Hungarian"]),
            "outs": [w.new_handle(), w.new_handle()]}


@prop("swap")
def p_swap(w, rnd):
    hs = w.handles("mpo", pred=lambda e: e.meta.get("symbolic") and len(e.obj) >= 2)
    if not hs or len(w.models) > 40:
        return None
    a = rnd.choice(hs)
    return {"op": "swap", "a": a, "i": rnd.randrange(len(w.h[a].obj) - 1), "algo": rnd.choice(["Hopcroft-Karp", "qr", "Hungarian"])}


@prop("mpo_identity")
def p_mpo_identity(w, rnd):
    return {"op": "mpo_identity", "mid": rnd.randrange(len(w.models)), "out": w.new_handle()}


@prop("mps_random")
def p_mps_random(w, rnd):
    mid = rnd.randrange(len(w.models))
    model = w.models[mid]
    secs = gm.reachable_sectors(model)
    # prefer sectors already present in the population so that pairs in the same sector exist
    present = [tuple(np.asarray(w.h[x].obj.qntot).reshape(-1).tolist()) for x in w.handles("mps", mid)]
    q = rnd.choice(present) if present and rnd.random() < 0.6 else rnd.choice(secs)
    n = len(model.basis)
    if rnd.random() < 0.5:
        m = rnd.choice([1, 2, 3, 4, 6, 8])
    else:
        m = [1] + [rnd.choice([1, 2, 3, 5, 8]) for _ in range(n - 1)] + [1]
    s = {"op": "mps_random", "mid": mid, "qntot": list(q), "m": m, "percent": rnd.choice([1.0, 1.0, 0.5, 0.0]), "out": w.new_handle()}
    if rnd.random() < 0.4:
        s["complex"] = True
        s["phases"] = [round(rnd.uniform(0, 6.28), 4) for _ in range(n)]
    if rnd.random() < 0.4:
        s["coeff"] = [round(rnd.uniform(0.3, 2.0), 4) * rnd.choice([1, -1]), round(rnd.uniform(-1, 1), 4) if s.get("complex") else 0.0]
    elif rnd.random() < 0.25:
        # prefactors that are close to, but not equal to, the default one (e.g. after a normalisation round trip)
        s["coeff"] = [1.0 + rnd.choice([3e-6, -2e-6, 4e-7, 1e-8]), 0.0]
    return s


@prop("mps_product")
def p_mps_product(w, rnd):
    mid = rnd.randrange(len(w.models))
    spec = w.model_specs[mid]
    cond = []
    for site in spec["sites"]:
        if rnd.random() < 0.6:
            nb = gm.site_nbas(site)
            d = gm.site_dofs(site)[0]
            cond.append([list(d) if isinstance(d, tuple) else d, rnd.randrange(nb)])
    return {"op": "mps_product", "mid": mid, "condition": cond, "qn_idx": rnd.choice([None, 0, len(spec["sites"]) - 1, rnd.randrange(len(spec["sites"]))]),
            "out": w.new_handle()}


@prop("mpdm_from_mps")
def p_mpdm_from_mps(w, rnd):
    hs = w.handles("mps", pred=lambda e: dense.dim(e.obj.model) <= 40)
    if not hs:
        return None
    return {"op": "mpdm_from_mps", "a": rnd.choice(hs), "out": w.new_handle()}


def _pair(w, rnd, kinds=("mps", "mpo", "mpdm"), same_sector=True):
    hs = w.handles(kinds)
    rnd.shuffle(hs)
    for a in hs:
        ea = w.h[a]
        cands = [b for b in w.handles(ea.kind, ea.mid)
                 if (not same_sector) or np.all(np.asarray(w.h[b].obj.qntot) == np.asarray(ea.obj.qntot))]
        if cands:
            return a, rnd.choice(cands)
    return None


@prop("add")
def p_add(w, rnd):
    p = _pair(w, rnd)
    if p is None:
        return None
    return {"op": "add", "a": p[0], "b": p[1], "sub": rnd.random() < 0.3, "out": w.new_handle()}


@prop("scale")
def p_scale(w, rnd):
    hs = w.handles(pred=nonzero)
    if not hs:
        return None
    s = {"op": "scale", "a": rnd.choice(hs), "val": rc(rnd), "out": w.new_handle()}
    if abs(complex(*s["val"])) < 1e-3:
        s["val"] = [1.5, 0.0]
    r = rnd.random()
    if r < 0.25:
        s["inplace"] = True
    elif r < 0.5:
        s["method"] = rnd.choice(["mul", "rmul"])
        if s["val"][1] == 0.0:
            s["val"] = [float(s["val"][0]), 0.0]
    return s


@prop("unary")
def p_unary(w, rnd):
    hs = w.handles(pred=nonzero)
    if not hs:
        return None
    a = rnd.choice(hs)
    which = rnd.choice(["copy", "conj", "to_complex", "conj_trans"] if w.h[a].kind == "mpo" else ["copy", "conj", "to_complex"])
    return {"op": "unary", "a": a, "which": which, "out": w.new_handle()}


@prop("apply")
def p_apply(w, rnd):
    ops = w.handles("mpo", pred=nonzero)
    if not ops:
        return None
    a = rnd.choice(ops)
    mid = w.h[a].mid
    small = dense.dim(w.models[mid]) <= 64
    targets = w.handles("mps", mid, pred=nonzero)
    if small:
        targets += [x for x in w.handles(("mpo", "mpdm"), mid, pred=nonzero) if max(w.h[x].obj.bond_dims) * max(w.h[a].obj.bond_dims) <= 64]
    if not targets:
        return None
    b = rnd.choice(targets)
    s = {"op": "apply", "a": a, "b": b, "out": w.new_handle()}
    if w.h[b].kind == "mpdm" and rnd.random() < 0.5:
        s["a"], s["b"] = b, a
    else:
        s["matmul"] = rnd.random() < 0.3
        s["canonicalise"] = (not s["matmul"]) and rnd.random() < 0.3
    if max(w.h[a].obj.bond_dims) * max(w.h[b].obj.bond_dims) > 200:
        return None
    return s


@prop("contract")
def p_contract(w, rnd):
    ops = w.handles("mpo", pred=lambda e: nonzero(e) and sweep_ready(e.obj))
    rnd.shuffle(ops)
    for a in ops:
        t = w.handles(("mps", "mpdm"), w.h[a].mid, pred=lambda e: nonzero(e) and len(e.obj) >= 2 and sweep_ready(e.obj)
                      and max(e.obj.bond_dims) * max(w.h[a].obj.bond_dims) <= 200)
        if t:
            return {"op": "contract", "a": a, "b": rnd.choice(t), "algo": rnd.choice(["svd", "variational", "variational"]),
                    "m": rnd.choice([None, None, rnd.randint(1, 6)]), "vguess": [rnd.choice([1, 2, 3, 5]), rnd.choice([2, 5])], "out": w.new_handle()}
    return None


@prop("canonicalise")
def p_canonicalise(w, rnd):
    hs = w.handles(pred=lambda e: nonzero(e) and sweep_ready(e.obj))
    if not hs:
        return None
    a = rnd.choice(hs)
    n = len(w.h[a].obj)
    s = {"op": "canonicalise", "a": a}
    if rnd.random() < 0.5 and n >= 1:
        s["stop_idx"] = rnd.randrange(n)
    return s


@prop("ensure")
def p_ensure(w, rnd):
    hs = w.handles(pred=nonzero)
    if not hs:
        return None
    return {"op": "ensure", "a": rnd.choice(hs), "side": rnd.choice("LR")}


@prop("move_qnidx")
def p_move_qnidx(w, rnd):
    hs = w.handles(pred=nonzero)
    if not hs:
        return None
    a = rnd.choice(hs)
    return {"op": "move_qnidx", "a": a, "k": rnd.randrange(len(w.h[a].obj))}


@prop("compress_lossless")
def p_compress_lossless(w, rnd):
    hs = w.handles(pred=lambda e: nonzero(e) and sweep_ready(e.obj))
    if not hs:
        return None
    s = {"op": "compress_lossless", "a": rnd.choice(hs), "slack": rnd.choice([0, 0, 1, 5]), "twice": rnd.random() < 0.3,
         "via_config": rnd.random() < 0.3}
    if not s["via_config"] and rnd.random() < 0.35:
        s["per_bond"] = True
    return s


@prop("normalize")
def p_normalize(w, rnd):
    hs = w.handles(("mps", "mpdm"), pred=nonzero)
    if not hs:
        return None
    return {"op": "normalize", "a": rnd.choice(hs), "kind": rnd.choice(["mps_only", "mps_and_coeff", "mps_norm_to_coeff"])}


@prop("truncate")
def p_truncate(w, rnd):
    hs = w.handles(pred=lambda e: nonzero(e) and max(e.obj.bond_dims) >= 2)
    if not hs:
        hs = w.handles(pred=nonzero)
    if not hs:
        return None
    a = rnd.choice(hs)
    n = len(w.h[a].obj)
    mx = max(w.h[a].obj.bond_dims)
    mode = rnd.choice(["temp_int", "temp_list", "config_fixed", "config_threshold", "config_both", "config_perbond", "config_both_perbond"])
    s = {"op": "truncate", "a": a, "mode": mode, "m": rnd.randint(1, max(1, mx)), "side": rnd.choice("LR"),
         "thr": rnd.choice([0.5, 0.2, 0.05, 1e-2, 1e-3, 1e-6]), "ret_s": rnd.random() < 0.4, "out": w.new_handle()}
    if mode in ("temp_list", "config_perbond", "config_both_perbond"):
        s["mlist"] = [1] + [rnd.randint(1, max(1, mx)) for _ in range(n - 1)] + [1]
    return s


@prop("observe")
def p_observe(w, rnd):
    hs = w.handles(pred=nonzero)
    if not hs:
        return None
    which = rnd.choice(["dot", "distance", "angle", "norm", "expectation", "expectation"])
    a = rnd.choice(hs)
    ea = w.h[a]
    s = {"op": "observe", "which": which, "a": a}
    if which in ("dot", "distance", "angle"):
        cands = w.handles(ea.kind, ea.mid, pred=nonzero)
        if which == "distance":
            cands = [b for b in cands if np.all(np.asarray(w.h[b].obj.qntot) == np.asarray(ea.obj.qntot))]
        if not cands:
            return None
        s["b"] = rnd.choice(cands)
    elif which == "norm":
        s["mp_norm"] = rnd.random() < 0.5
    else:
        if ea.kind == "mpo":
            st = w.handles(("mps", "mpdm"), ea.mid, pred=nonzero)
            if not st:
                return None
            s["a"], s["b"] = rnd.choice(st), a
        else:
            ops = w.handles("mpo", ea.mid, pred=nonzero)
            if not ops:
                return None
            s["b"] = rnd.choice(ops)
        if rnd.random() < 0.3:
            e2 = w.h[s["a"]]
            bras = w.handles(e2.kind, e2.mid, pred=nonzero)
            # bra must live in the sector the operator maps the ket to
            oq = np.asarray(w.h[s["b"]].obj.qntot)
            bras = [b for b in bras if np.all(np.asarray(w.h[b].obj.qntot) == np.asarray(e2.obj.qntot) + oq)]
            if bras:
                s["bra"] = rnd.choice(bras)
    return s


@prop("drop")
def p_drop(w, rnd):
    hs = list(w.h)
    if len(hs) < 3:
        return None
    return {"op": "drop", "a": rnd.choice(hs), "collect": rnd.random() < 0.5}


@prop("alias_mutate")
def p_alias_mutate(w, rnd):
    hs = w.handles(pred=nonzero)
    if not hs:
        return None
    return {"op": "alias_mutate", "a": rnd.choice(hs), "site": rnd.randrange(8), "factor": rnd.choice([2.0, -1.0, 0.5])}


@prop("regauge")
def p_regauge(w, rnd):
    hs = [x for x in w.handles(("mps", "mpdm")) if len(w.h[x].obj) >= 2 and nonzero(w.h[x])]
    if not hs:
        return None
    return {"op": "regauge", "a": rnd.choice(hs), "bond": rnd.randrange(8), "gseed": rnd.randrange(2 ** 31)}


@prop("spill")
def p_spill(w, rnd):
    hs = w.handles(pred=nonzero)
    if not hs or not w.scratch:
        return None
    return {"op": "spill", "a": rnd.choice(hs), "size": rnd.choice([0, 0, 64, 256])}


# =====================================================================================================
# header generation

def gen_header(rnd, nmodels=(1, 2), flavours=None, maxdim=160, nmax=5, nmin=2):
    models = []
    for _ in range(rnd.randint(*nmodels)):
        spec = gm.gen_sites(rnd, flavour=rnd.choice(flavours) if flavours else None, nmin=nmin, nmax=nmax, maxdim=maxdim)
        spec["ham"] = gm.gen_hamiltonian(rnd, spec["sites"], spec["qn_size"])
        models.append(spec)
    # "twin" models: the same degrees of freedom grouped into sites differently (two simple-electron sites merged into one
    # multi-electron site).  Term objects built once are used for both (mpo_shared).
    for idx, spec in enumerate(list(models)):
        el = [i for i, st in enumerate(spec["sites"]) if st["type"] == "elec" and "qn" not in st]
        if spec["qn_size"] == 1 and len(el) >= 2 and rnd.random() < 0.5:
            i, j = sorted(rnd.sample(el, 2))
            sites = [dict(x) for k, x in enumerate(spec["sites"]) if k != j]
            sites[i] = {"type": "multivac", "dofs": [spec["sites"][i]["dof"], spec["sites"][j]["dof"]]}
            twin = {"flavour": spec["flavour"], "qn_size": 1, "sites": sites, "twin_of": idx, "pair": [spec["sites"][i]["dof"], spec["sites"][j]["dof"]]}
            twin["ham"] = gm.gen_hamiltonian(rnd, sites, 1)
            models.append(twin)
    return {"models": models, "knobs": {}}


# =====================================================================================================
# C07: observables from the network vs dense definitions

def _state_vector_layout(e):
    """Tensor-part as a vector together with the per-index dimension list and, per site, the position of the
    physical ('up') index in that list.  Mps: one index per site.  MpDm: (up, down) per site."""
    pd = dense.pdims(e.obj.model)
    if e.kind == "mps":
        return dense.dense_mps_tensors(e.obj), list(pd), list(range(len(pd)))
    m = dense.dense_mpo_tensors(e.obj)
    dims = []
    for p in pd:
        dims += [p, p]
    return dense.op_as_vector(m, pd), dims, [2 * i for i in range(len(pd))]


def _rdm_ref(vec, dims, keep):
    rho = dense.partial_trace_keep(vec, dims, keep)  # rho[a,b] = sum psi_a conj(psi_b)
    return rho


def _match_rdm(w, got, rho, inv, what, scale):
    """Accept either index convention (rho or its transpose), see DESIGN: the documented formula and the electronic RDM
    formula use opposite conventions; hermiticity makes them complex conjugates of each other."""
    got = np.asarray(got)
    if got.shape != rho.shape:
        raise V({"C07"}, inv, f"{what}: shape {got.shape} vs {rho.shape}")
    e1 = float(np.linalg.norm(got - rho))
    e2 = float(np.linalg.norm(got - rho.T))
    err = min(e1, e2)
    w.stats.ratio(inv, err, 1e-9 * scale)
    if err > 1e-9 * scale:
        raise V({"C07"}, inv, f"{what}: differs from the dense partial trace by {err:.3e} (scale {scale:.3e})")
    return 0 if e1 <= e2 else 1


def _entropy_of(rho):
    wv = np.linalg.eigvalsh((rho + rho.conj().T) / 2)
    wv = np.where(wv > 0, wv, 0.0)
    s = wv.sum()
    return dense.vn_entropy_from_probs(wv / s) if s > 0 else 0.0


@op("observe2")
def op_observe2(w, s):
    a = s["a"]
    if not w.live_ok(a):
        return "skipped"
    e = w.h[a]
    which = s["which"]
    w.cur_op = "observe2:" + which
    if e.kind == "mpo" or not nonzero(e):
        return "skipped"
    model = e.obj.model
    n = len(e.obj)
    pd = dense.pdims(model)
    vec, dims, up = _state_vector_layout(e)
    nrm2 = float(np.vdot(vec, vec).real)
    if which in ("entropy", "rdm1", "rdm2", "edof_rdm", "occupations") and not (1e-6 <= nrm2 <= 1e6):
        # reduced density matrices and entropies are defined for (roughly) normalised states: the library compares eigenvalues of the
        # un-normalised matrices with absolute tolerances
        return "skipped"
    if which == "expectations":
        # a list of operators built from recorded specs (shared prefixes/suffixes, duplicates, one-site differences ...)
        ops = []
        refs = []
        for ts in s["ops"]:
            terms = [gm.build_op(t) for t in ts]
            try:
                mpo = Mpo(model, terms)
            except ValueError:
                continue
            ops.append(mpo)
            refs.append(dense.dense_op(model, terms))
        for hmpo in s.get("pool", []):
            if w.live_ok(hmpo) and w.h[hmpo].kind == "mpo" and w.h[hmpo].mid == e.mid and nonzero(w.h[hmpo]):
                ops.append(w.h[hmpo].obj)
                refs.append(w.h[hmpo].shadow)
        if s.get("order"):
            order = [i % len(ops) for i in s["order"]] if ops else []
            ops = [ops[i] for i in order]
            refs = [refs[i] for i in order]
        if not ops:
            return "skipped"
        bra = s.get("bra")
        t = tens(e)
        if bra is not None and w.live_ok(bra) and w.h[bra].kind == e.kind and w.h[bra].mid == e.mid:
            tb = tens(w.h[bra])
            bra_obj = w.h[bra].obj.conj()
        else:
            tb, bra_obj = t, None
        want = []
        for r in refs:
            want.append(complex(tb.conj() @ (r @ t)) if e.kind == "mps" else complex(np.sum(tb.conj() * (r @ t))))
        want = np.array(want)
        sc = enorm(e.obj, t) * (enorm(w.h[bra].obj, tb) if bra_obj is not None else enorm(e.obj, t)) * max(float(np.linalg.norm(r, 2)) for r in refs)
        hashbits = s.get("hashbits")
        old_hash = None
        if hashbits:
            from renormalizer.mps.matrix import Matrix
            old_hash = Matrix.__hash__
            Matrix.__hash__ = lambda self_, _b=hashbits, _h=old_hash: _h(self_) & ((1 << _b) - 1)
        try:
            try:
                fast = np.asarray(e.obj.expectations(ops, self_conj=bra_obj, opt=True))
            except (RuntimeError, ValueError, AssertionError) as ex:
                # under an injected hash collision the library's own collision test raises RuntimeError, a broadcasting
                # ValueError (tensors of different shapes) or a shape assertion (broadcast-equal tensors of different
                # bond dimension): all are loud refusals, never wrong numbers
                if hashbits:
                    w.stats.faults["hash_collision_raised"] += 1
                    fast = None
                else:
                    raise
        finally:
            if old_hash is not None:
                Matrix.__hash__ = old_hash
        slow = np.asarray(e.obj.expectations(ops, self_conj=bra_obj, opt=False))
        for name, got in (("fast", fast), ("slow", slow)):
            if got is None:
                continue
            if got.shape != want.shape:
                raise V({"C07"}, "C07.expectations.shape", f"{name} path returned shape {got.shape} for {len(ops)} operators")
            # documented: a real number is returned for an entry whose imaginary part is negligible (numpy allclose, atol 1e-8);
            # the one-by-one path decides that per entry
            d_full = np.abs(got - want)
            d_real = np.where(np.abs(want.imag) <= 1.0001e-8, np.abs(got - want.real), np.inf)
            err = float(np.minimum(d_full, d_real).max())
            w.stats.ratio("C07.expectations", err, 1e-9 * max(sc, 1e-300))
            if err > 1e-9 * max(sc, 1e-300):
                k = int(np.argmax(np.minimum(d_full, d_real)))
                raise V({"C07"}, f"C07.expectations.{name}", f"expectations({name} path, {len(ops)} operators, hashbits={hashbits}): entry {k} is {got[k]!r}, dense {want[k]!r}",
                        sig=f"C07.expectations.{name}")
        if fast is not None:
            # (an entry may have been returned as a real number by one path only: documented for imaginary parts below 1e-8)
            small_imag = (np.abs(np.imag(fast)) <= 1.0001e-8) & (np.abs(np.imag(slow)) <= 1.0001e-8)
            d = float(np.where(small_imag, np.abs(np.real(fast) - np.real(slow)), np.abs(fast - slow)).max())
            if d > 1e-10 * max(sc, 1e-300):
                raise V({"C07"}, "C07.expectations.fast_vs_slow", f"batched fast path differs from one-by-one path by {d:.3e}")
            if hashbits:
                w.stats.probes["hash_narrowed_fast_path_correct"] += 1
        w.stats.probes["expectations_lists"] += 1
        return "done"
    if which == "occupations":
        got_e = got_v = None
        try:
            if model.e_dofs:
                got_e = np.asarray(e.obj.e_occupations)
            if model.v_dofs:
                got_v = np.asarray(e.obj.ph_occupations)
        except ValueError as ex:
            w.stats.probes["occupations_unsupported"] += 1
            return "skipped"
        t = tens(e)
        from renormalizer.model import Op
        for got, dofs, sym in ((got_e, model.e_dofs, r"a^\dagger a"), (got_v, model.v_dofs, "n")):
            if got is None:
                continue
            want = []
            for d in dofs:
                r = dense.dense_op(model, [Op(sym, d)])
                want.append(complex(t.conj() @ (r @ t)) if e.kind == "mps" else complex(np.sum(t.conj() * (r @ t))))
            want = np.array(want)
            err = float(np.abs(got - want).max()) if len(want) else 0.0
            if err > 1e-9 * max(nrm2 * max(pd), 1e-300):
                raise V({"C07"}, "C07.occupations", f"occupations ({sym}) {np.round(got, 8).tolist()} vs dense {np.round(want, 8).tolist()}")
        w.stats.probes["occupations"] += 1
        return "done"
    if which == "rdm1":
        idx = s.get("idx")
        if idx is not None:
            idx = [i % n for i in idx]
        got = e.obj.calc_1site_rdm(idx if idx is None or len(idx) > 1 else idx[0])
        sites = range(n) if idx is None else sorted(set(idx))
        if sorted(got.keys()) != list(sites):
            raise V({"C07"}, "C07.rdm1.keys", f"calc_1site_rdm({idx}) returned keys {sorted(got.keys())}")
        conv = set()
        for i in sites:
            rho = _rdm_ref(vec, dims, [up[i]])
            conv.add(_match_rdm(w, got[i], rho, "C07.rdm1", f"1-site RDM of site {i} ({e.kind})", max(nrm2, 1e-300)))
        return "done"
    if which == "rdm2":
        if n < 2 or n > 5:
            return "skipped"
        got = e.obj.calc_2site_rdm()
        want_keys = [(i, j) for i in range(n) for j in range(i + 1, n)]
        if sorted(got.keys()) != want_keys:
            raise V({"C07"}, "C07.rdm2.keys", f"calc_2site_rdm returned keys {sorted(got.keys())}")
        for (i, j) in want_keys:
            rho = _rdm_ref(vec, dims, [up[i], up[j]])
            _match_rdm(w, got[(i, j)], rho, "C07.rdm2", f"2-site RDM ({i},{j}) ({e.kind})", max(nrm2, 1e-300))
        return "done"
    if which == "edof_rdm":
        if e.kind != "mps" or not model.e_dofs or any(b.multi_dof for b in model.basis) or len(model.e_dofs) > 4:
            return "skipped"
        from renormalizer.model import Op
        try:
            got = np.asarray(e.obj.calc_edof_rdm())
        except ValueError:
            return "skipped"
        t = tens(e)
        ne = len(model.e_dofs)
        want = np.zeros((ne, ne), dtype=complex)
        for a_, d1 in enumerate(model.e_dofs):
            for b_, d2 in enumerate(model.e_dofs):
                r = dense.dense_op(model, [Op(r"a^\dagger a", [d1, d2])])
                want[a_, b_] = complex(t.conj() @ (r @ t))
        err = float(np.abs(got - want).max())
        if err > 1e-9 * max(nrm2, 1e-300):
            raise V({"C07"}, "C07.edof_rdm", f"electronic RDM differs from <a+_i a_j> by {err:.3e}")
        return "done"
    if which == "entropy":
        kind = s["kind"]
        if n < 2 or (kind in ("2site", "mutual") and n > 5):
            return "skipped"
        if e.kind == "mpdm" and kind == "bond":
            return "skipped"
        try:
            got = e.obj.calc_entropy(kind)
        except Exception as ex:
            raise V({"C07"}, "C07.entropy.raised", f"calc_entropy({kind!r}) on {e.kind}: {type(ex).__name__}: {ex}", sig=f"C07.entropy.raised:{kind}:{type(ex).__name__}")
        s1 = {i: _entropy_of(_rdm_ref(vec, dims, [up[i]])) for i in range(n)}
        tol = 1e-7
        if kind == "1site":
            for i in range(n):
                if abs(got[i] - s1[i]) > tol:
                    raise V({"C07"}, "C07.entropy.1site", f"1-site entropy of site {i}: {got[i]!r} vs dense {s1[i]!r}")
        elif kind in ("2site", "mutual"):
            s2 = {(i, j): _entropy_of(_rdm_ref(vec, dims, [up[i], up[j]])) for i in range(n) for j in range(i + 1, n)}
            if kind == "2site":
                for k2, v in s2.items():
                    if abs(got[k2] - v) > tol:
                        raise V({"C07"}, "C07.entropy.2site", f"2-site entropy {k2}: {got[k2]!r} vs dense {v!r}")
            else:
                got = np.asarray(got)
                for (i, j), v in s2.items():
                    want = (s1[i] + s1[j] - v) / 2
                    if abs(got[i, j] - want) > tol or abs(got[j, i] - want) > tol:
                        raise V({"C07"}, "C07.entropy.mutual", f"mutual entropy ({i},{j}): {got[i, j]!r} vs dense {want!r}")
        elif kind == "bond":
            got = np.asarray(got)
            sp = dense.schmidt_spectra(vec, dims)
            if len(got) != n - 1:
                raise V({"C07"}, "C07.entropy.bond", f"bond entropy has {len(got)} entries for {n} sites")
            for k_ in range(n - 1):
                p = sp[k_] ** 2
                want = dense.vn_entropy_from_probs(p / p.sum())
                if abs(got[k_] - want) > tol:
                    raise V({"C07"}, "C07.entropy.bond", f"bond entropy at cut {k_ + 1}: {got[k_]!r} vs dense {want!r}")
        w.stats.probes["entropy_" + kind] += 1
        return "done"
    raise HarnessError(which)


def _obs_ops(rnd, spec):
    """Operator-list specs with combinatorial structure: one-site families, pairs, duplicates, scaled copies."""
    sites = spec["sites"]
    qs = spec["qn_size"]
    fam = []
    kind = rnd.choice(["onsite", "pairs", "mixed", "dups"])
    n = len(sites)
    for _ in range(rnd.randint(2, 7)):
        if kind == "onsite":
            i = rnd.randrange(n)
            sy, d, q, _h = gm.elementary(sites[i], rnd, qs, neutral_only=True)
            fam.append([{"sym": sy, "dofs": [list(x) if isinstance(x, tuple) else x for x in d], "factor": [1.0, 0.0], "qn": q}])
        elif kind == "pairs":
            t = gm.gen_term(rnd, sites, qs, max_body=2, charge=[0] * qs)
            if t:
                fam.append([t])
        elif kind == "dups":
            t = gm.gen_term(rnd, sites, qs, max_body=2, charge=[0] * qs)
            if t:
                fam.append([t])
                t2 = dict(t)
                t2["factor"] = [t["factor"][0] * rnd.choice([1.0, 1.0, 2.0]), t["factor"][1]]
                fam.append([t2])
        else:
            ts = gm.gen_terms(rnd, sites, qs, 1, 3, charge=[0] * qs)
            if ts:
                fam.append(ts)
    return fam


@prop("observe2")
def p_observe2(w, rnd):
    hs = w.handles(("mps", "mpdm"), pred=nonzero)
    if not hs:
        return None
    a = rnd.choice(hs)
    e = w.h[a]
    which = rnd.choice(["expectations", "expectations", "occupations", "rdm1", "rdm2", "edof_rdm", "entropy"])
    s = {"op": "observe2", "a": a, "which": which}
    if which == "expectations":
        s["ops"] = _obs_ops(rnd, w.model_specs[e.mid])
        pool = w.handles("mpo", e.mid, pred=nonzero)
        s["pool"] = [rnd.choice(pool) for _ in range(rnd.randint(0, 3))] if pool else []
        if rnd.random() < 0.5:
            s["order"] = [rnd.randrange(16) for _ in range(rnd.randint(2, 10))]
        if rnd.random() < 0.3:
            s["hashbits"] = rnd.choice([1, 2, 4, 8, 16])
        if rnd.random() < 0.25:
            bras = [b for b in w.handles(e.kind, e.mid, pred=nonzero) if np.all(np.asarray(w.h[b].obj.qntot) == np.asarray(e.obj.qntot))]
            if bras:
                s["bra"] = rnd.choice(bras)
    elif which == "rdm1":
        s["idx"] = rnd.choice([None, [rnd.randrange(8)], [rnd.randrange(8), rnd.randrange(8)]])
    elif which == "entropy":
        s["kind"] = rnd.choice(["1site", "2site", "mutual", "bond"])
    return s
