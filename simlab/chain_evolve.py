"""Evolution operations on the chain world (C09 real time, C10 imaginary time / thermal, parts of C13/C06).

Oracle layers (DESIGN 3.2):
  1. implementation vs its own coefficients - a dense explicit-RK / Taylor stepper fed with the tableau / coefficients
     READ FROM THE LIBRARY OBJECT at run time must agree with the library result to 1e-8 when nothing is truncated;
  2. scheme vs exact propagator - per-call reference expm(-i H dt) psi_before, bound 6 x^(p+1)/(p+1)! with
     x = ||H|| |dt| in the judged window, plus halving (order) tests;
  3. pairwise oracles on one input (local solver A vs B, adaptive vs fixed, t vs t/2+t/2);
  4. invariants at ANY bond dimension: bond limit, sector (C06 monitor), norm/energy conservation of one-site TDVP-PS,
     input object untouched (C13 monitor).
"""
import math
import os

import numpy as np
import scipy.linalg
import scipy.integrate

from simlab.core import HarnessError, Violation
from simlab.chain import (op, prop, V, World, sweep_ready, nonzero, tens, exact_bond_cap, site_tensors_nonzero, OPS, PROPOSERS)
from simlab.ref import dense
from simlab.gen import models as gm

from renormalizer.mps import Mps, Mpo, MpDm
from renormalizer.utils import Quantity, CompressConfig, CompressCriteria, EvolveConfig, EvolveMethod
from renormalizer.utils.rk import method_list as RK_METHODS

METHODS = {
    "pc": EvolveMethod.prop_and_compress, "tdrk4": EvolveMethod.prop_and_compress_tdrk4, "tdrk": EvolveMethod.prop_and_compress_tdrk,
    "ps": EvolveMethod.tdvp_ps, "ps2": EvolveMethod.tdvp_ps2, "vmf": EvolveMethod.tdvp_vmf, "mu_vmf": EvolveMethod.tdvp_mu_vmf,
    "mu_cmf": EvolveMethod.tdvp_mu_cmf,
}
EMBEDDED = ("RKF45", "Cash-Karp45")
X_LO, X_HI = 0.02, 0.5
CALIBRATE = bool(os.environ.get("VERIF_CALIBRATE"))   # record measured/allowed ratios without raising (bound calibration runs)


def make_config(c):
    kw = dict(method=METHODS[c["method"]], adaptive=bool(c.get("adaptive")), guess_dt=_dt(c.get("guess_dt", [0.1, 0.0])),
              adaptive_rtol=c.get("adaptive_rtol", 5e-4), rk_solver=c.get("rk_solver", "C_RK4"), reg_epsilon=c.get("reg_epsilon", 1e-10),
              ivp_rtol=c.get("ivp_rtol", 1e-5), ivp_atol=c.get("ivp_atol", 1e-8), ivp_solver=c.get("ivp_solver", "krylov"),
              force_ovlp=c.get("force_ovlp", True))
    if c.get("taylor_order") is not None:
        kw["taylor_order"] = c["taylor_order"]
    ec = EvolveConfig(**kw)
    ec.tdvp_cmf_midpoint = c.get("cmf_midpoint", True)
    ec.tdvp_cmf_c_trapz = c.get("cmf_trapz", False)
    ec.vmf_auto_switch = c.get("vmf_auto_switch", True)
    return ec


def cfg_from_object(ec):
    """The configuration an object actually carries (guess_dt and the auto-switched method travel with objects and copies)."""
    rev = {v: k for k, v in METHODS.items()}
    g = ec.guess_dt
    return {"method": rev[ec.method], "adaptive": bool(ec.adaptive), "guess_dt": [float(np.real(g)), float(np.imag(g))],
            "adaptive_rtol": ec.adaptive_rtol, "rk_solver": ec.rk_config.method, "taylor_order": len(ec.taylor_config.coeff) - 1,
            "reg_epsilon": ec.reg_epsilon, "ivp_rtol": ec.ivp_rtol, "ivp_atol": ec.ivp_atol, "ivp_solver": ec.ivp_solver,
            "force_ovlp": ec.force_ovlp, "cmf_midpoint": ec.tdvp_cmf_midpoint, "cmf_trapz": ec.tdvp_cmf_c_trapz,
            "vmf_auto_switch": ec.vmf_auto_switch, "carried": True}


def _dt(v):
    if isinstance(v, (list, tuple)):
        return complex(v[0], v[1]) if v[1] != 0 else float(v[0])
    return v


def scheme_order(c, ec):
    m = c["method"]
    if m == "pc":
        return len(ec.taylor_config.coeff) - 1
    if m == "tdrk4":
        return 4
    if m == "tdrk":
        return int(ec.rk_config.order[0])
    return None


def dense_rk(tableau, hfun, y0, tau, t0=0.0, row=0):
    a, b, cc = tableau
    a = np.asarray(a)
    b = np.atleast_2d(np.asarray(b))
    cc = np.asarray(cc).ravel()
    ks = []
    for i in range(len(cc)):
        y = y0.copy()
        for j in range(i):
            if a[i, j] != 0:
                y = y + a[i, j] * tau * ks[j]
        ks.append(-1j * (hfun(cc[i] * tau + t0) @ y))
    out = y0.copy()
    for i in range(len(cc)):
        if b[row, i] != 0:
            out = out + b[row, i] * tau * ks[i]
    return out


def dense_taylor(coeff, H, y0, dt):
    out = np.zeros_like(y0, dtype=complex)
    term = y0.astype(complex)
    for k, ck in enumerate(coeff):
        if k > 0:
            term = -1j * dt * (H @ term)
        out = out + ck * math.factorial(k) * term / math.factorial(k) if False else out + ck * term * (1.0)
    return out


def taylor_apply(coeff, H, y0, dt):
    """sum_k coeff[k] (-i dt H)^k y0  with the coefficients as given (coeff[k] is expected to be 1/k!)"""
    out = np.zeros_like(y0, dtype=complex)
    term = y0.astype(complex)
    for k, ck in enumerate(coeff):
        if k > 0:
            term = (-1j * dt) * (H @ term)
        out = out + ck * term
    return out


def _apply(U, x, kind):
    return U @ x


def expected_after_normalize(ref_full, t_before, coeff, U, imag, normalize, kind):
    """What evolve(normalize=...) documents: tensors normalised; coeff unchanged (real time) / coeff normalised (imag time)."""
    if not normalize:
        return ref_full
    ut = U @ t_before
    n = float(np.linalg.norm(ut.ravel()))
    if n == 0:
        return ref_full
    c = coeff / abs(coeff) if imag else coeff
    return ut / n * c


class TDH:
    """SimClock seam: time-dependent Hamiltonian callback supplied by the simulator; records every (t, kwargs) it is called with."""

    def __init__(self, model, base_terms, drive_term, amp, omega, phase, offset=0.0):
        self.model, self.base, self.drive = model, base_terms, drive_term
        self.amp, self.omega, self.phase, self.offset = amp, omega, phase, offset
        self.calls = []
        self.H0 = dense.dense_op(model, base_terms, offset)
        self.H1 = dense.dense_op(model, [drive_term])

    def g(self, t):
        return self.amp * math.sin(self.omega * t + self.phase)

    def dense(self, t):
        return self.H0 + self.g(t) * self.H1

    def __call__(self, t, *args, **kwargs):
        self.calls.append(float(np.real(t)))
        from renormalizer.model import Op
        gt = self.g(float(np.real(t)))
        terms = list(self.base)
        if gt != 0:
            terms = terms + [Op(self.drive.symbol, self.drive.dofs, self.drive.factor * gt, self.drive.qn_list)]
        return Mpo(self.model, terms, offset=Quantity(self.offset))


class CountingH:
    """Time-independent Hamiltonian handed over as a callable (documented alternative): counts how often the propagator asks for it,
    i.e. stages x trial steps of the adaptive Runge-Kutta controller."""

    def __init__(self, mpo):
        self.mpo, self.calls = mpo, []

    def __call__(self, t, *args, **kwargs):
        self.calls.append(float(np.real(t)))
        return self.mpo


def _ham_entry_ok(e):
    return e.kind == "mpo" and e.meta.get("hermitian")


@op("mpo_ham")
def op_mpo_ham(w, s):
    """The model Hamiltonian (Hermitian, charge conserving by construction of the generator), optional energy offset."""
    model = w.models[s["mid"]]
    off = s.get("offset", 0.0)
    mpo = Mpo(model, offset=Quantity(off), algo=s.get("algo", "qr"))
    ref = dense.dense_op(model, model.ham_terms, off)
    w.put(s["out"], "mpo", mpo, ref, s["mid"], {"hermitian": True, "symbolic": True, "offset": off})
    w.check_value(s["out"], {"C01"}, "C01.mpo.dense", what="Mpo(model)", extra_scale=float(sum(abs(t.factor) for t in model.ham_terms)) + abs(off))
    h = ref
    if float(np.abs(h - h.conj().T).max()) > 1e-10 * max(float(np.abs(h).max()), 1e-300):
        raise HarnessError("generated Hamiltonian is not Hermitian")
    return "done"


@op("expand")
def op_expand(w, s):
    """Fill the bonds to the exact ranks (needed by the TDVP schemes for the accuracy claims)."""
    if not w.live_ok(s["a"], s["h"]):
        return "skipped"
    e, eh = w.h[s["a"]], w.h[s["h"]]
    if e.kind == "mpo" or eh.mid != e.mid or not _ham_entry_ok(eh) or not nonzero(e):
        return "skipped"
    src = e.obj      # the call works on the live object: it is documented to return a new state (C13)
    cap = exact_bond_cap(w.pd(e.mid, e.kind))
    m = s.get("m") or max(cap)
    # the expander needs room at every interior bond (a bond already at its target gets a zero-dimensional expander)
    if any(min(int(m), cp) - b <= 0 for b, cp in zip(src.bond_dims[1:-1], cap[1:-1])):
        return "skipped"
    w.changed.add(s["a"])   # configuration and gauge of the input are set by the caller (value preserving)
    src.compress_config = CompressConfig(CompressCriteria.fixed, max_bonddim=int(m))
    if not sweep_ready(src):
        src.ensure_left_canonical()
    bonds_in = list(src.bond_dims)
    try:
        with expand_budget():
            res = src.expand_bond_dimension(eh.obj, include_ex=False)
    except StepBudgetExceeded:
        w.stats.probes["expand_loop_budget_exceeded"] += 1
        w.check_value(s["a"], {"C13", "C09"}, "C13.expand.input_changed", what="input of an abandoned expand_bond_dimension call")
        return "skipped"
    except Exception as ex:
        w.stats.probes["expand_failed:" + type(ex).__name__] += 1
        return "skipped"
    w.check_value(s["a"], {"C13", "C09"}, "C13.expand.input_changed", what="input of expand_bond_dimension")
    if list(src.bond_dims) != bonds_in:
        raise V({"C13", "C09"}, "C13.expand.input_truncated", f"expand_bond_dimension changed the bond dimensions of its input {bonds_in} -> {list(src.bond_dims)}")
    w.put(s["out"], e.kind, res, dense.dense_of(res), e.mid, {"expanded": int(m)})
    # the expander adds components of relative size 1e-10: the represented state must not move more than that
    err = float(np.linalg.norm((w.h[s["out"]].shadow - e.shadow).ravel()))
    sc = float(np.linalg.norm(e.shadow.ravel())) * max(1.0, float(np.linalg.norm(eh.shadow, 2)))   # (one branch adds H|psi> un-normalised: coef x ||H||)
    w.stats.ratio("C09.expand", err, 1e-8 * sc)
    if err > 1e-8 * sc:
        raise V({"C09", "C13"}, "C09.expand.moved_state", f"expand_bond_dimension changed the state by {err:.3e} (norm {sc:.3e})")
    if any(b > int(m) for b in res.bond_dims):
        raise V({"C09", "C05"}, "C09.expand.limit", f"expand_bond_dimension produced bonds {res.bond_dims} above the limit {m}")
    return "done"


def sector_bond_cap(model, qntot, kind):
    """Largest Schmidt rank a state of total charge qntot can have at every cut (symmetry-aware).  For density
    operators (purifications) only the 'up' index carries charge."""
    qs = [np.asarray(b.sigmaqn).reshape(b.nbas, -1) for b in model.basis]
    n = len(qs)
    qntot = np.asarray(qntot).reshape(-1)

    def counts(seq):
        cur = {tuple([0] * len(qntot)): 1}
        out = [dict(cur)]
        for q in seq:
            nxt = {}
            for key, c in cur.items():
                for row in q:
                    k2 = tuple((np.array(key) + row).tolist())
                    nxt[k2] = nxt.get(k2, 0) + c * (q.shape[0] if kind == "mpdm" else 1)
            cur = nxt
            out.append(dict(cur))
        return out
    left = counts(qs)
    right = counts(qs[::-1])[::-1]
    caps = []
    for k in range(n + 1):
        tot = 0
        for key, c in left[k].items():
            rk = tuple((qntot - np.array(key)).tolist())
            tot += min(c, right[k].get(rk, 0))
        caps.append(max(tot, 1))
    return caps


def chain_exactness(obj, kind):
    """-> (tangent_full, splitting_exact) for a chain state, see simlab/ref/exactness.py"""
    from simlab.ref import exactness
    model = obj.model
    n = len(model.basis)
    if obj.qn is None:
        qs_, qntot = 1, np.zeros(1, dtype=int)
        rows = [np.zeros((b.nbas, 1), dtype=int) for b in model.basis]
        labels = [np.zeros((bd, 1), dtype=int) for bd in obj.bond_dims]
    else:
        qntot = np.asarray(obj.qntot).reshape(-1)
        qs_ = len(qntot)
        rows = [np.asarray(b.sigmaqn).reshape(b.nbas, qs_) for b in model.basis]
        labels = []
        for k in range(n + 1):
            lab = np.asarray(obj.qn[k]).reshape(-1, qs_)
            if k > obj.qnidx:
                lab = qntot.reshape(1, -1) - lab
            labels.append(lab)
    if kind == "mpdm":
        rows = [np.repeat(r, r.shape[0], axis=0) for r in rows]
    bonds = [(set(range(k)), labels[k], rows[:k], rows[k:]) for k in range(1, n)]
    return exactness.splitting_exact(n, bonds, qntot)


def full_rank_in_sector(obj, kind):
    """True iff every bond of the state carries, in EVERY charge sector, as many basis states as the sector allows
    (then the TDVP tangent space is the whole symmetry sector and the projector splitting is exact)."""
    model = obj.model
    qs = [np.asarray(b.sigmaqn).reshape(b.nbas, -1) for b in model.basis]
    n = len(qs)
    if obj.qn is None:
        return all(b >= c for b, c in zip(obj.bond_dims, exact_bond_cap([q.shape[0] ** (2 if kind == "mpdm" else 1) for q in qs])))
    qntot = np.asarray(obj.qntot).reshape(-1)

    def counts(seq):
        cur = {tuple([0] * len(qntot)): 1}
        out = [dict(cur)]
        for q in seq:
            nxt = {}
            for key, c in cur.items():
                for row in q:
                    k2 = tuple((np.array(key) + row).tolist())
                    nxt[k2] = nxt.get(k2, 0) + c * (q.shape[0] if kind == "mpdm" else 1)
            cur = nxt
            out.append(dict(cur))
        return out
    left = counts(qs)
    right = counts(qs[::-1])[::-1]
    for k in range(1, n):
        lab = np.asarray(obj.qn[k]).reshape(-1, len(qntot))
        if k > obj.qnidx:
            lab = qntot.reshape(1, -1) - lab
        have = {}
        for row in lab.tolist():
            have[tuple(row)] = have.get(tuple(row), 0) + 1
        for key, c in left[k].items():
            rk = tuple((qntot - np.array(key)).tolist())
            need = min(c, right[k].get(rk, 0))
            if have.get(key, 0) < need:
                return False
    return True


class StepBudgetExceeded(Exception):
    pass


class expand_budget:
    """Deterministic iteration budget for expand_bond_dimension_general: its `while True` loop (grow the expander until the target
    dimensions are reached) does not terminate for some inputs.  No property speaks about it, so the harness only makes sure that a run
    ends reproducibly: more than `n` rounds raise StepBudgetExceeded (counted as a probe)."""

    def __init__(self, n=25):
        self.n = n

    def __enter__(self):
        import renormalizer.mps.mps as mm
        self.mm, self.orig, self.count = mm, mm.compressed_sum, 0

        def counted(*a, **k):
            self.count += 1
            if self.count > self.n:
                raise StepBudgetExceeded(f"more than {self.n} rounds of the expander loop")
            return self.orig(*a, **k)
        mm.compressed_sum = counted
        return self

    def __exit__(self, *exc):
        self.mm.compressed_sum = self.orig
        return False


_ivp_budget = [None]
import renormalizer.mps.mps as _mps_mod
_orig_solve_ivp = _mps_mod.solve_ivp


def _budgeted_solve_ivp(fun, *a, **kw):
    """SimClock-like seam: a deterministic budget of right-hand-side evaluations per local ODE solve, so that a stiff
    regularised problem ends the step reproducibly instead of stalling the run (wall-clock limits are not replayable)."""
    budget = _ivp_budget[0]
    if budget is None:
        return _orig_solve_ivp(fun, *a, **kw)
    n = [0]

    def f2(t, y):
        n[0] += 1
        if n[0] > budget:
            raise StepBudgetExceeded(f"more than {budget} right-hand-side evaluations in one local ODE solve")
        return fun(t, y)
    return _orig_solve_ivp(f2, *a, **kw)


_mps_mod.solve_ivp = _budgeted_solve_ivp


def _sector_norm(H, model, qntot, kind):
    if kind == "mps":
        mask = dense.sector_mask(model, qntot)
        if mask.any():
            H = H[np.ix_(mask, mask)]
    with np.errstate(all="ignore"):
        return float(np.linalg.norm(H, 2)) if H.size else 0.0


def _cfg_fingerprint(obj):
    """The settings a caller put on an object (evolution scheme and its switches, bond limit): part of the object's state."""
    ec, cc = obj.evolve_config, obj.compress_config
    g = ec.guess_dt
    return {"method": str(ec.method), "adaptive": bool(ec.adaptive), "guess_dt": [float(np.real(g)), float(np.imag(g))] if g is not None else None,
            "adaptive_rtol": ec.adaptive_rtol, "rk": ec.rk_config.method, "taylor": tuple(np.asarray(ec.taylor_config.coeff).tolist()) if hasattr(ec, "taylor_config") else None,
            "reg_epsilon": ec.reg_epsilon, "ivp_rtol": ec.ivp_rtol, "ivp_atol": ec.ivp_atol, "ivp_solver": ec.ivp_solver, "force_ovlp": ec.force_ovlp,
            "cmf_midpoint": ec.tdvp_cmf_midpoint, "cmf_trapz": ec.tdvp_cmf_c_trapz, "vmf_auto_switch": ec.vmf_auto_switch,
            "criteria": str(cc.criteria), "max_bonddim": getattr(cc, "bond_dim_max_value", None), "threshold": cc.threshold}


def do_evolve_cfg_only(src_obj, cfgspec, dt, bond_m):
    if not cfgspec.get("adaptive") and "guess_dt" not in cfgspec and not np.iscomplex(dt) and dt < 0:
        cfgspec = dict(cfgspec, guess_dt=[-0.1, 0.0])
    src_obj.evolve_config = make_config(cfgspec)
    if bond_m is not None:
        src_obj.compress_config = CompressConfig(CompressCriteria.fixed, max_bonddim=int(bond_m))


def do_evolve(w, src_obj, hobj_or_cb, cfgspec, dt, bond_m, normalize=True, keep_config=False):
    if not keep_config:
        if not cfgspec.get("adaptive") and "guess_dt" not in cfgspec and not np.iscomplex(dt) and dt < 0:
            cfgspec = dict(cfgspec, guess_dt=[-0.1, 0.0])  # check_valid_dt: the configured guess must point in the direction of dt
        src_obj.evolve_config = make_config(cfgspec)
        if bond_m is not None:
            src_obj.compress_config = CompressConfig(CompressCriteria.fixed, max_bonddim=int(bond_m))
    return src_obj.evolve(hobj_or_cb, dt, normalize=normalize)


@op("evolve")
def op_evolve(w, s):
    a, hh = s["a"], s["h"]
    if not w.live_ok(a, hh):
        return "skipped"
    e, eh = w.h[a], w.h[hh]
    if e.kind == "mpo" or eh.mid != e.mid or not _ham_entry_ok(eh) or not nonzero(e):
        return "skipped"
    c = s["cfg"]
    carried = bool(s.get("keep_config")) and bool(e.meta.get("evolved"))
    if carried:
        c = cfg_from_object(e.obj.evolve_config)
    method = c["method"]
    model = e.obj.model
    if method in ("ps", "ps2", "mu_cmf", "vmf", "mu_vmf") and not site_tensors_nonzero(e.obj):
        return "skipped"
    n = len(e.obj)
    if n < 2:
        return "skipped"
    imag = s["dt"][1] != 0
    dt = complex(0.0, s["dt"][1]) if imag else float(s["dt"][0])
    if imag and (s["dt"][0] != 0 or s["dt"][1] >= 0):
        return "skipped"
    if c.get("adaptive") or method == "tdrk":
        g = _dt(c.get("guess_dt", [0.1, 0.0] if (imag or s["dt"][0] > 0 or c.get("adaptive") or carried) else [-0.1, 0.0]))
        if bool(np.iscomplex(g)) != imag:
            return "skipped"
        if (imag and np.imag(g) * s["dt"][1] < 0) or (not imag and np.real(g) * s["dt"][0] < 0):
            return "skipped"  # check_valid_dt: the guess must point in the direction of dt
    if method == "tdrk":
        if (c.get("rk_solver") in EMBEDDED) != bool(c.get("adaptive")):
            return "skipped"
    if method in ("tdrk4", "vmf", "mu_vmf") and c.get("adaptive"):
        return "skipped"
    if method in ("tdrk4", "tdrk") and imag:
        return "skipped"  # the RK P&C schemes hard-code the real-time factor -1j
    if method in ("mu_vmf", "mu_cmf"):
        # matrix-unfolding schemes need bonds without redundancy (economic SVD of the environment site must keep the bond)
        vecp = e.shadow if e.kind == "mps" else dense.op_as_vector(e.shadow, dense.pdims(model))
        ranks = [int(np.sum(sv > 1e-14 * max(float(sv[0]), 1e-300))) for sv in dense.schmidt_spectra(vecp, w.pd(e.mid, e.kind))]
        if any(b > r for b, r in zip(e.obj.bond_dims[1:-1], ranks)):
            return "skipped"
    if method in ("pc", "tdrk4", "tdrk"):
        if not sweep_ready(e.obj):
            return "skipped"  # propagate-and-compress canonicalises operator-times-state: asserts a sweep-ready centre
        # H^k psi must not vanish (a zero state cannot be canonicalised): states in the kernel of H are refused loudly
        y = tens(e).astype(complex)
        for _k in range(7):
            y = eh.shadow @ y
            if float(np.linalg.norm(y.ravel())) < 1e-10 * max(float(np.linalg.norm(eh.shadow, 2)) ** (_k + 1), 1e-300) * float(np.linalg.norm(tens(e).ravel())):
                w.stats.probes["pc_kernel_state_skipped"] += 1
                return "skipped"
    H = eh.shadow
    qntot = np.asarray(e.obj.qntot).reshape(-1)
    hn = _sector_norm(H, model, qntot, e.kind)
    tau = abs(dt)
    x = hn * tau
    # ---- time dependent Hamiltonian (SimClock)
    tdh = None
    if s.get("td") and method in ("tdrk4", "tdrk", "vmf", "mu_vmf") and not imag:
        td = s["td"]
        drive = gm.build_op(td["term"])
        tdh = TDH(model, model.ham_terms, drive, td["amp"], td["omega"], td["phase"], eh.meta.get("offset", 0.0))
    src = e.obj
    e.meta["bonds_before"] = list(src.bond_dims)
    full_rank_input = full_rank_in_sector(src, e.kind)
    split_exact = None
    if method in ("ps", "ps2"):
        # the splitting integrators need bonds exactly at the sector caps; they are exact only with a centre (ref/exactness.py)
        full_rank_input, split_exact = chain_exactness(src, e.kind)
    illcond = False
    worst = 1.0
    if method in ("vmf", "mu_vmf", "mu_cmf"):
        # the regularised inverse (reg_epsilon) freezes directions whose Schmidt weight is far below sqrt(reg_epsilon):
        # the schemes' error order is only claimed for well-conditioned states
        vecp = e.shadow if e.kind == "mps" else dense.op_as_vector(e.shadow, dense.pdims(model))
        for sv, b in zip(dense.schmidt_spectra(vecp, w.pd(e.mid, e.kind)), e.meta["bonds_before"][1:-1]):
            if b > len(sv):
                worst = 0.0      # redundant bond (more labels than the smaller side can fill): the mean-field overlap is singular
                continue
            k = min(len(sv), b)
            if k and sv[0] > 0:
                worst = min(worst, float(sv[k - 1] / sv[0]))
        illcond = worst < 1e-3
    t_before = tens(e)
    coeff = src.coeff
    psi0 = e.shadow
    bond_m = s.get("m")
    # VMF / CMF re-gauge the input (ensure_left_canonical): that is a documented gauge change, not a value change
    w.cur_op = f"evolve:{method}"
    _ivp_budget[0] = 4000
    cfg_before = None
    counter = None
    try:
        # (do_evolve installs the configuration first; the snapshot is what the caller set on the object)
        if not carried:
            do_evolve_cfg_only(src, c, dt, bond_m)
        cfg_before = _cfg_fingerprint(src)
        counter = CountingH(eh.obj) if (tdh is None and method == "tdrk" and c.get("adaptive")) else None
        res = do_evolve(w, src, tdh if tdh is not None else (counter if counter is not None else eh.obj), c, dt, bond_m, normalize=s.get("normalize", True), keep_config=True)
    except StepBudgetExceeded:
        w.stats.probes["ivp_budget_exceeded:" + method] += 1
        w.changed.add(a)  # gauge of the input may have been touched (ensure_left_canonical); value is re-checked below
        w.check_value(a, {"C13"}, "C13.bystander_or_input_changed", what="input of an abandoned (stiff) evolve call")
        return "done"
    except (Violation, HarnessError):
        raise
    except (FloatingPointError, ValueError, np.linalg.LinAlgError) as ex:
        if not isinstance(ex, FloatingPointError) and not (illcond and ("infs or NaNs" in str(ex) or isinstance(ex, np.linalg.LinAlgError))):
            raise V({"C09" if not imag else "C10"}, "evolve.raised", f"evolve {method} dt={dt} cfg={c}: {type(ex).__name__}: {ex}",
                    sig=f"evolve.raised:{method}:{'imag' if imag else 'real'}:{type(ex).__name__}")
        if illcond:
            # overflow in the regularised inverse / exponential of an ill-conditioned mean-field problem: loud refusal
            w.stats.probes["mean_field_illconditioned_overflow"] += 1
            return "done"
        raise V({"C09" if not imag else "C10"}, "evolve.raised", f"evolve {method} dt={dt} cfg={c}: FloatingPointError: {ex}",
                sig=f"evolve.raised:{method}:{'imag' if imag else 'real'}:FloatingPointError")
    except AssertionError as ex:
        import traceback as _tb
        last = _tb.extract_tb(ex.__traceback__)[-1]
        if method in ("pc", "tdrk4", "tdrk") and last.name in ("_push_cano", "_update_ms", "scale") and bond_m is not None and \
                bond_m < max(exact_bond_cap(w.pd(e.mid, e.kind))):
            # a TRUNCATED intermediate state was annihilated by H: zero states cannot be canonicalised (loud refusal)
            w.stats.probes["pc_truncated_kernel_state_refused"] += 1
            return "done"
        raise V({"C09" if not imag else "C10"}, "evolve.raised", f"evolve {method} dt={dt} cfg={c}: AssertionError at {last.name}:{last.lineno}",
                sig=f"evolve.raised:{method}:{'imag' if imag else 'real'}:AssertionError")
    except Exception as ex:
        raise V({"C09" if not imag else "C10"}, "evolve.raised", f"evolve {method} dt={dt} cfg={c}: {type(ex).__name__}: {ex}",
                sig=f"evolve.raised:{method}:{'imag' if imag else 'real'}:{type(ex).__name__}")
    if res is src:
        raise V({"C13"}, "C13.evolve.returned_input", f"evolve({method}) returned its input object", sig=f"C13.evolve.returned_input:{method}")
    ec = src.evolve_config
    pid_main = "C10" if imag else "C09"
    # ---- reference
    if tdh is not None:
        shp = psi0.shape
        rhs = lambda t, y: (-1j * (tdh.dense(t) @ y.reshape(shp))).ravel()
        sol = scipy.integrate.solve_ivp(rhs, (0.0, float(dt)), psi0.astype(complex).ravel(), method="DOP853", rtol=1e-12, atol=1e-14)
        full = sol.y[:, -1].reshape(shp)
        tsol = scipy.integrate.solve_ivp(rhs, (0.0, float(dt)), t_before.astype(complex).ravel(), method="DOP853", rtol=1e-12, atol=1e-14)
        ut = tsol.y[:, -1].reshape(shp)
        U = None
    else:
        with np.errstate(all="ignore"):
            U = scipy.linalg.expm(-1j * dt * H)
        if not np.all(np.isfinite(U)):
            w.stats.probes["reference_overflow_skipped"] += 1
            return "skipped"
        with np.errstate(all="ignore"):
            if imag:
                U = U.real if not np.iscomplexobj(H) or float(np.abs(U.imag).max()) < 1e-14 * float(np.abs(U).max()) else U
            full = U @ psi0
            ut = U @ t_before
        if not (np.all(np.isfinite(full)) and np.all(np.isfinite(ut))):
            w.stats.probes["reference_overflow_skipped"] += 1
            return "skipped"
    if s.get("normalize", True):
        nrm = float(np.linalg.norm(ut.ravel()))
        cexp = (coeff / abs(coeff)) if imag else coeff
        expected = ut / nrm * cexp
    else:
        expected = full
    got = dense.dense_of(res)
    meta = {"evolved": True, "method": method}
    if cfg_before is not None and res is not src:
        cfg_after = _cfg_fingerprint(src)
        # guess_dt is a step-size hint that adaptive propagation updates on purpose (the configuration object travels with the states)
        diff = sorted(k for k in cfg_before if cfg_before[k] != cfg_after[k] and k != "guess_dt")
        if diff:
            raise V({"C13", pid_main}, "C13.input_config_changed", f"evolve {method} changed the settings of its INPUT object: " + ", ".join(f"{k}: {cfg_before[k]} -> {cfg_after[k]}" for k in diff),
                    sig=f"C13.input_config_changed:{method}:{','.join(diff)}")
    en = max(float(np.linalg.norm(expected.ravel())), 1e-300)
    with np.errstate(all="ignore"):
        err = float(np.linalg.norm((got - expected).ravel())) / en
    if illcond and not (np.isfinite(err) and err < 1e100):
        # singular mean-field problem (see above): the regularised inverse blew up; such inputs are outside the schemes' claims and the
        # result is not kept in the world (its magnitude would overflow every later comparison)
        w.stats.probes["mean_field_illconditioned_blowup_dropped"] += 1
        return "done"
    w.put(s["out"], e.kind, res, got, e.mid, meta)
    if not np.isfinite(err):
        err = float("inf")
    # ---- bond limit (any bond dimension)
    limit = None
    cc = res.compress_config
    if cc.criteria is not CompressCriteria.threshold:
        limit = list(cc.max_dims) if cc.max_dims is not None else [cc.bond_dim_max_value] * (n + 1)
        onesite = method in ("ps", "vmf", "mu_vmf", "mu_cmf")   # one-site schemes keep the bonds of their input
        eff = [max(l, b0) for l, b0 in zip(limit, src.bond_dims)] if onesite else limit
        if any(b > l for b, l in zip(res.bond_dims, eff)):
            raise V({pid_main, "C05"}, "evolve.bond_limit", f"evolve {method}: bonds {res.bond_dims} exceed the configured limit {limit}",
                    sig=f"evolve.bond_limit:{method}")
    # ---- is the bond dimension sufficient to hold the result ?
    cap = exact_bond_cap(w.pd(e.mid, e.kind))
    scap = sector_bond_cap(model, qntot, e.kind) if e.obj.qn is not None else cap
    scap = [min(a_, b_) for a_, b_ in zip(cap, scap)]
    sufficient_limit = limit is not None and all(l >= cp for l, cp in zip(limit, scap))
    # TDVP is exact only if the tangent space is the whole sector: every bond of the INPUT at the largest possible Schmidt rank
    tdvp = method in ("ps", "ps2", "vmf", "mu_vmf", "mu_cmf")
    if tdvp:
        sufficient = full_rank_input and sufficient_limit
    else:
        sufficient = sufficient_limit
    key = f"{method}:{c.get('rk_solver') if method == 'tdrk' else c.get('ivp_solver') if tdvp else c.get('taylor_order')}:{'ad' if c.get('adaptive') else 'fx'}:{'imag' if imag else 'real'}:{e.kind}"
    w.stats.probes["evolve:" + key] += 1
    w.last_evolve = {"err": err, "x": x, "sufficient": sufficient, "key": key}
    # ---- SimClock: sample times of the time-dependent Hamiltonian
    if tdh is not None:
        _check_td_times(w, tdh, method, ec, float(dt), c)
    # time-dependent runs are judged only where the bound is a tolerance (adaptive RK), not an order constant
    # (not judged by accuracy: the embedded error estimate is a heuristic for rapidly driven Hamiltonians - measured: accepted steps
    # with 8x the threshold - so the clock oracle _check_td_times decides the time-dependent adaptive runs instead)
    td_adaptive = False
    judged = sufficient and X_LO <= x <= X_HI and (tdh is None or td_adaptive)
    # schemes that integrate ODEs on the raw tensors have ABSOLUTE tolerances (ivp_atol): their accuracy claims are for states of
    # ordinary magnitude only
    ode_based = method in ("vmf", "mu_vmf") or (method in ("mu_cmf", "ps", "ps2") and c.get("ivp_solver", "krylov") != "krylov")
    tnorm = float(np.linalg.norm(t_before.ravel()))
    odd_magnitude = ode_based and not (1e-2 <= tnorm <= 1e2)
    if judged and odd_magnitude:
        w.stats.probes["ode_absolute_tolerance_not_judged"] += 1
        judged = False
    if judged and illcond:
        w.stats.probes["mean_field_illconditioned_not_judged"] += 1
        judged = False
    if sufficient and x <= 2.0:
        # ---------- layer 1: implementation vs its own coefficients (sharp, follows the library's tableau)
        ref1 = None
        if method == "pc" and not c.get("adaptive"):
            ref1 = taylor_apply(ec.taylor_config.coeff, H, t_before, dt)
        elif method == "tdrk4":
            tab = (np.array([[0, 0, 0, 0], [0.5, 0, 0, 0], [0, 0.5, 0, 0], [0, 0, 1, 0]]), np.array([[1 / 6, 2 / 6, 2 / 6, 1 / 6]]), np.array([0, 0.5, 0.5, 1.0]))
            ref1 = dense_rk(tab, (tdh.dense if tdh is not None else (lambda t: H)), t_before.astype(complex), float(dt))
        elif method == "tdrk" and not c.get("adaptive"):
            ref1 = dense_rk(ec.rk_config.tableau, (tdh.dense if tdh is not None else (lambda t: H)), t_before.astype(complex), float(dt))
        if ref1 is not None:
            if s.get("normalize", True):
                ref1 = ref1 / float(np.linalg.norm(ref1.ravel())) * ((coeff / abs(coeff)) if imag else coeff)
            else:
                ref1 = ref1 * coeff
            e1 = float(np.linalg.norm((got - ref1).ravel())) / max(float(np.linalg.norm(ref1.ravel())), 1e-300)
            w.stats.ratio("evolve.layer1:" + method, e1, 1e-8)
            if e1 > 1e-8:
                raise V({pid_main}, "evolve.layer1", f"evolve {method} ({c.get('rk_solver', c.get('taylor_order'))}, td={tdh is not None}, x={x:.3g}): result differs from a dense "
                                                     f"stepper using the library's own coefficients by {e1:.3e}", sig=f"evolve.layer1:{method}")
    if judged:
        bound, why = scheme_bound(c, ec, x, method, imag, e.kind, split_exact)
        if method in ("ps", "ps2") and bound is not None and split_exact is False:
            # second-order splitting away from the exactness condition: the constant grows with the number of split terms (sites)
            bound += max(0.0, 0.15 * len(src) - PS_ORDER_CONST) * x ** 3
        if method in ("vmf", "mu_vmf") and bound is not None and worst < 1.0:
            bound, why = bound * max(1.0, 0.5 / max(worst, 1e-3)), why + f" x 0.5/(min kept Schmidt ratio {worst:.3g})"
        if method == "mu_cmf" and bound is not None and worst < 1.0:
            # the constant-mean-field error constant grows with the inverse of the smallest kept Schmidt value (the mean-field
            # equations contain the inverse reduced density matrix): measured 63 x^3 at a ratio of 0.011
            bound, why = bound * max(1.0, 1.0 / max(worst, 1e-3)), why + f" x 1/(min kept Schmidt ratio {worst:.3g})"
        if method == "tdrk" and c.get("adaptive") and bound is not None:
            # the controller ACCEPTS a trial step whenever its error estimate is below 2^order x adaptive_rtol (p >= 0.5), so the
            # guaranteed accuracy is (number of steps) x 2^order x adaptive_rtol; the number of trial steps is read off the clock seam
            ncalls = len(tdh.calls) if tdh is not None else len(counter.calls)
            ntrial = max(1, ncalls // max(1, int(ec.rk_config.stage)))
            bound = max(bound, ntrial * 2.0 ** int(ec.rk_config.order[0]) * c.get("adaptive_rtol", 5e-4) + 2e-9)
            why = f"adaptive RK: max(20, {ntrial} trial steps x 2^{int(ec.rk_config.order[0])}) x adaptive_rtol"
            if td_adaptive:
                key = key + ":td"
        if bound is not None:
            r = w.stats.ratio("evolve.layer2:" + key + ("" if split_exact is None else ":exact" if split_exact else ":order"), err, bound)
            if err > bound and not CALIBRATE:
                raise V({pid_main}, "evolve.layer2", f"evolve {key} x=||H||dt={x:.4g}: error vs exact propagator {err:.3e} > bound {bound:.3e} ({why}); cfg={c}",
                        sig=f"evolve.layer2:{method}:{'imag' if imag else 'real'}:{c.get('ivp_solver') if tdvp else ''}:{'ad' if c.get('adaptive') else 'fx'}")
    # ---- invariants at any bond dimension: one-site projector splitting conserves norm and energy (real time)
    if method == "ps" and not imag and not c.get("adaptive") and tdh is None and e.kind == "mps":
        t_after = tens(w.h[s["out"]])
        n0 = float(np.linalg.norm(t_before.ravel()))
        n1 = float(np.linalg.norm((t_after * (n0 if s.get("normalize", True) else 1.0)).ravel())) if s.get("normalize", True) else float(np.linalg.norm(t_after.ravel()))
        if not s.get("normalize", True):
            tol = 1e-8 if c.get("ivp_solver", "krylov") == "krylov" else 50 * c.get("ivp_rtol", 1e-5)
            w.stats.ratio("evolve.ps.norm", abs(n1 - n0) / n0, tol)
            if abs(n1 - n0) > tol * n0:
                raise V({"C09"}, "C09.ps.norm", f"one-site TDVP-PS changed the norm {n0!r} -> {n1!r} (bonds {src.bond_dims})")
        e0 = float(np.real(np.vdot(t_before, H @ t_before))) / n0 ** 2
        nn = float(np.linalg.norm(t_after.ravel()))
        e1_ = float(np.real(np.vdot(t_after, H @ t_after))) / nn ** 2
        tol = (1e-8 if c.get("ivp_solver", "krylov") == "krylov" else 50 * c.get("ivp_rtol", 1e-5)) * max(hn, 1e-300)
        w.stats.ratio("evolve.ps.energy", abs(e1_ - e0), tol)
        if abs(e1_ - e0) > tol:
            raise V({"C09"}, "C09.ps.energy", f"one-site TDVP-PS changed the energy {e0!r} -> {e1_!r} at bonds {src.bond_dims} (x={x:.3g}, solver {c.get('ivp_solver')})")
    # ---- pairwise oracles on the same input
    pair = s.get("pair")
    if pair and sufficient and not carried and not illcond and not odd_magnitude and (pair.get("kind") != "solver" or 1e-2 <= tnorm <= 1e2):
        _pairwise(w, s, pair, e, eh, c, dt, bond_m, got, x, hn, imag, pid_main, tdh is not None, split_exact)
    return "done"


def _check_td_times(w, tdh, method, ec, dt, c):
    calls = tdh.calls
    if not calls:
        raise V({"C09"}, "C09.td.not_called", f"time-dependent Hamiltonian callback never called by {method}")
    lo, hi = min(0.0, dt), max(0.0, dt)
    eps = 1e-12 * max(abs(dt), 1.0)
    out = [t for t in calls if t < lo - eps or t > hi + eps]
    if out and method in ("vmf", "mu_vmf"):
        # the embedded ODE integrator probes the right-hand side once beyond the interval when it selects its first step size
        w.stats.probes["td_probe_outside_interval"] += len(out)
        out = []
    if out:
        raise V({"C09"}, "C09.td.times_outside_step", f"{method}: H(t) requested at {out[:5]} outside the step [0,{dt}]", sig=f"C09.td.times_outside_step:{method}")
    if method == "tdrk4":
        want = [0.0, 0.5 * dt, 0.5 * dt, dt]
    elif method == "tdrk" and not c.get("adaptive"):
        want = [float(ci) * dt for ci in np.asarray(ec.rk_config.tableau[2]).ravel()]
    elif method == "tdrk":
        # adaptive: the calls come in groups of `stage`; group g samples t0_g + c_i * tau_g; a rejected trial keeps t0, an accepted
        # one advances it by tau_g, and the accepted steps must add up to dt exactly
        cs = [float(ci) for ci in np.asarray(ec.rk_config.tableau[2]).ravel()]
        st = len(cs)
        tol = 1e-9 * max(abs(dt), 1.0)
        if len(calls) % st:
            raise V({"C09"}, "C09.td.sample_times", f"adaptive {c.get('rk_solver')}: {len(calls)} requests are not a multiple of the {st} stages", sig="C09.td.sample_times:tdrk:adaptive")
        t0 = 0.0
        reached = 0.0
        for g in range(len(calls) // st):
            grp = calls[g * st:(g + 1) * st]
            i1 = max(range(st), key=lambda i: abs(cs[i]))
            tau = (grp[i1] - grp[0]) / cs[i1] if cs[i1] else 0.0
            if abs(grp[0] - t0) > tol and abs(grp[0] - reached) > tol:
                raise V({"C09"}, "C09.td.sample_times", f"adaptive {c.get('rk_solver')}: trial step {g} starts at t={grp[0]!r}, expected {t0!r} (retry) or {reached!r} (continue); requests {calls[:3 * st]}",
                        sig="C09.td.sample_times:tdrk:adaptive")
            t0 = grp[0]
            if any(abs(grp[i] - (t0 + cs[i] * tau)) > tol for i in range(st)):
                raise V({"C09"}, "C09.td.sample_times", f"adaptive {c.get('rk_solver')}: trial step {g} samples {grp}, not t0 + c*tau with t0={t0!r}, tau={tau!r}", sig="C09.td.sample_times:tdrk:adaptive")
            reached = t0 + tau
        if abs(reached - dt) > 1e-6 * max(abs(dt), 1e-12):
            raise V({"C09"}, "C09.td.sample_times", f"adaptive {c.get('rk_solver')}: the last trial step ends at t={reached!r}, the requested step is {dt!r}", sig="C09.td.sample_times:tdrk:adaptive")
        w.stats.probes["td_adaptive_schedule_checked"] += 1
        return
    else:
        w.stats.probes["td_calls_" + method] += len(calls)
        return
    if len(calls) != len(want) or any(abs(a - b) > 1e-12 * max(abs(dt), 1.0) for a, b in zip(calls, want)):
        raise V({"C09"}, "C09.td.sample_times", f"{method}/{c.get('rk_solver')}: H(t) sampled at {calls}, the tableau nodes are {want}", sig=f"C09.td.sample_times:{method}")
    w.stats.probes["td_sample_times_checked"] += 1


PS_ORDER_CONST = 0.25   # second-order splitting away from the exactness condition: error <= 0.25 x^3 (calibrated, >10x margin)


def scheme_bound(c, ec, x, method, imag, kind, split_exact=True):
    """Allowed relative error vs the exact propagator for one call with x = ||H|| |dt| in [0.02, 0.5]."""
    floor = 2e-9
    if c.get("adaptive"):
        b = 2.0 * c.get("adaptive_rtol", 5e-4) * 10 + floor
        why = "adaptive: 20*adaptive_rtol"
        if method in ("mu_cmf", "ps", "ps2"):
            # step doubling on top of a splitting / mean-field scheme: the error estimate is a heuristic (measured up to 37 x adaptive_rtol)
            b = 2.0 * c.get("adaptive_rtol", 5e-4) * 100 + floor
            why = "adaptive TDVP: 200*adaptive_rtol"
        if method in ("mu_cmf", "ps", "ps2") and c.get("ivp_solver", "krylov") != "krylov":
            # the local ODE integrator has its own tolerances: the step-size controller cannot do better than that floor
            b += 20 * c.get("ivp_rtol", 1e-5) * max(x, 0.05) + 20 * c.get("ivp_atol", 1e-8)
            why += " + 20*ivp_rtol*x (local integrator floor)"
        return b, why
    if method in ("pc", "tdrk4", "tdrk"):
        p = scheme_order(c, ec)
        return 6.0 * x ** (p + 1) / math.factorial(p + 1) + floor, f"6 x^{p + 1}/{p + 1}!"
    if method in ("ps", "ps2"):
        extra = 0.0 if split_exact else PS_ORDER_CONST * x ** 3
        if c.get("ivp_solver", "krylov") == "krylov":
            return 1e-8 + extra, "projector splitting at exact ranks with Krylov local solver" + ("" if split_exact else " (no exactness centre: 0.25 x^3)")
        return 20 * c.get("ivp_rtol", 1e-5) * max(x, 0.05) + 20 * c.get("ivp_atol", 1e-8) + 1e-8 + extra, "20*ivp_rtol*x" + ("" if split_exact else " + 0.25 x^3")
    if method in ("vmf", "mu_vmf"):
        return 20 * c.get("ivp_rtol", 1e-5) * max(x, 0.05) + 20 * c.get("ivp_atol", 1e-8) + 3 * math.sqrt(c.get("reg_epsilon", 1e-10)), "20*ivp_rtol*x + 3*sqrt(reg_epsilon)"
    if method == "mu_cmf":
        if c.get("cmf_midpoint", True):
            return 2.5 * x ** 3 + 1e-5, "second-order CMF: 2.5 x^3"
        return 3.0 * x ** 2 + 1e-5, "first-order CMF: 3 x^2"
    return None, ""


def _pairwise(w, s, pair, e, eh, c, dt, bond_m, got, x, hn, imag, pid_main, td, split_exact=True):
    kind = pair["kind"]
    src = e.obj
    method = c["method"]
    gn = max(float(np.linalg.norm(got.ravel())), 1e-300)
    if td:
        return
    if kind == "solver" and method in ("ps", "ps2", "mu_cmf"):
        c2 = dict(c)
        c2["ivp_solver"] = pair["other"]
        if c2["ivp_solver"] == c.get("ivp_solver", "krylov"):
            return
        other = dense.dense_of(do_evolve(w, src, eh.obj, c2, dt, bond_m, normalize=s.get("normalize", True)))
        d = float(np.linalg.norm((other - got).ravel())) / gn
        # both runs share the scheme's splitting error exactly: judged against the integrators' own tolerances
        tol = 30 * max(c.get("ivp_rtol", 1e-5), 1e-7) * max(x, 0.05) + 30 * c.get("ivp_atol", 1e-8) + 1e-8
        w.stats.ratio(f"evolve.pair.solver:{method}:{'imag' if imag else 'real'}", d, tol)
        if d > tol and not CALIBRATE:
            raise V({pid_main}, "evolve.pair.solver", f"{method}: local integrator {c.get('ivp_solver', 'krylov')} vs {pair['other']} differ by {d:.3e} > {tol:.3e} (x={x:.3g}, {'imag' if imag else 'real'} time)",
                    sig=f"evolve.pair.solver:{method}:{'imag' if imag else 'real'}")
        w.stats.probes["pair_solver"] += 1
    elif kind == "adaptive" and method in ("pc", "ps", "ps2", "mu_cmf") and not c.get("adaptive"):
        c2 = dict(c)
        c2["adaptive"] = True
        c2["guess_dt"] = [0.0, pair["guess"] * (-1 if True else 1)] if imag else [pair["guess"] * (1 if dt > 0 else -1), 0.0]
        if imag:
            c2["guess_dt"] = [0.0, -abs(pair["guess"])]
        c2["taylor_order"] = None
        other = dense.dense_of(do_evolve(w, src, eh.obj, c2, dt, bond_m, normalize=s.get("normalize", True)))
        d = float(np.linalg.norm((other - got).ravel())) / gn
        bound, _ = scheme_bound(c, make_config(c), x, method, imag, e.kind, split_exact)
        tol = 20 * c2.get("adaptive_rtol", 5e-4) + (bound or 0)
        w.stats.ratio(f"evolve.pair.adaptive:{method}", d, tol)
        if d > tol and X_LO <= x <= X_HI and not CALIBRATE:
            raise V({pid_main}, "evolve.pair.adaptive", f"{method}: adaptive vs fixed stepping differ by {d:.3e} > {tol:.3e} (x={x:.3g})", sig=f"evolve.pair.adaptive:{method}")
        w.stats.probes["pair_adaptive"] += 1
    elif kind == "repeat" and not c.get("adaptive"):
        # history independence: the same call on the same (already used) input object gives the same state
        other = dense.dense_of(src.evolve(eh.obj, dt, normalize=s.get("normalize", True)))
        d = float(np.linalg.norm((other - got).ravel())) / gn
        w.stats.ratio(f"evolve.pair.repeat:{method}", d, 1e-6)
        if d > 1e-6:
            raise V({pid_main, "C13"}, "evolve.pair.repeat", f"{method}: evolving the same input object a second time gives a different state (rel. diff {d:.3e}, x={x:.3g})", sig=f"evolve.pair.repeat:{method}")
        w.stats.probes["pair_repeat"] += 1
    elif kind == "split" and not c.get("adaptive"):
        half = do_evolve(w, src, eh.obj, c, dt / 2, bond_m, normalize=s.get("normalize", True))
        two = dense.dense_of(do_evolve(w, half, eh.obj, c, dt / 2, bond_m, normalize=s.get("normalize", True)))
        d = float(np.linalg.norm((two - got).ravel())) / gn
        bound, _ = scheme_bound(c, make_config(c), x, method, imag, e.kind, split_exact)
        if bound is not None and X_LO <= x <= X_HI:
            w.stats.ratio(f"evolve.pair.split:{method}", d, 2 * bound)
            if d > 2 * bound and not CALIBRATE:
                raise V({pid_main}, "evolve.pair.split", f"{method}: one call of t vs two calls of t/2 differ by {d:.3e} > {2 * bound:.3e} (x={x:.3g})", sig=f"evolve.pair.split:{method}")
        w.stats.probes["pair_split"] += 1
    elif kind == "order" and method in ("pc", "tdrk4", "tdrk", "mu_cmf") and not c.get("adaptive") and X_LO * 2 <= x <= X_HI:
        # halving test: err(dt) / err(dt/2) >= 2^(p+1)/1.6 unless both are at rounding level
        H = eh.shadow
        t_before = tens(e)
        coeff = src.coeff

        def run(dtt):
            r = dense.dense_of(do_evolve(w, src, eh.obj, c, dtt, bond_m, normalize=s.get("normalize", True)))
            with np.errstate(all="ignore"):
                U = scipy.linalg.expm(-1j * dtt * H)
            ut = U @ t_before
            if s.get("normalize", True):
                ex = ut / float(np.linalg.norm(ut.ravel())) * ((coeff / abs(coeff)) if imag else coeff)
            else:
                ex = ut * coeff
            return float(np.linalg.norm((r - ex).ravel())) / max(float(np.linalg.norm(ex.ravel())), 1e-300)
        e_full, e_half = run(dt), run(dt / 2)
        if method == "mu_cmf":
            return  # CMF errors are not a clean power of the step (ODE tolerances, regularisation): judged by the bound only
        p = scheme_order(c, make_config(c))
        want = 2 ** (p + 1) / 1.6
        if e_full > 1e-7 and e_half > 1e-9:      # both errors well above the rounding / normalisation floor
            ratio = e_full / e_half
            w.stats.ratio(f"evolve.order:{method}:{c.get('rk_solver', '') if method == 'tdrk' else ''}", want, ratio)
            if ratio < want and not CALIBRATE:
                # the ratio approaches 2^(p+1) only asymptotically (measured 19.92 at x = 0.43 for the order-4 Taylor step in
                # imaginary time, higher-order terms of opposite sign): confirmed with a second halving before it is reported
                e_quarter = run(dt / 4)
                ratio2 = e_half / e_quarter if e_quarter > 1e-9 else None
                if ratio2 is None or ratio2 >= want:
                    w.stats.probes["order_test_preasymptotic"] += 1
                    return
                raise V({pid_main}, "evolve.order", f"{method}/{c.get('rk_solver', c.get('taylor_order'))}: halving the step reduces the error only by {ratio:.2f} and {ratio2:.2f} (expected >= {want:.1f} for order {p}); "
                                                   f"errors {e_full:.3e} -> {e_half:.3e} -> {e_quarter:.3e} at x={x:.3g}", sig=f"evolve.order:{method}:{'imag' if imag else 'real'}")
            w.stats.probes["order_tests"] += 1


# =====================================================================================================
# proposals

def gen_cfg(rnd, imag, kind, allow_td=True):
    if rnd.random() < 0.1:
        # scenario: the step-size controller must REJECT its first trial step (tight tolerance, over-optimistic guess)
        g = rnd.choice([0.5, 2.0, 10.0])
        c = {"adaptive": True, "guess_dt": [0.0, -g] if imag else [g, 0.0], "adaptive_rtol": rnd.choice([1e-6, 1e-7, 1e-8]), "reject_scenario": True}
        if imag or rnd.random() < 0.5:
            c.update(method="pc", taylor_order=None)
        else:
            c.update(method="tdrk", rk_solver=rnd.choice(sorted(EMBEDDED)))
        return c
    method = rnd.choice(["pc", "pc", "tdrk4", "tdrk", "tdrk", "ps", "ps", "ps2", "vmf", "mu_vmf", "mu_cmf", "mu_cmf"])
    if imag and method in ("tdrk4", "tdrk"):
        method = rnd.choice(["pc", "ps", "ps2", "mu_vmf", "mu_cmf"])
    c = {"method": method}
    if method == "pc":
        c["adaptive"] = rnd.random() < 0.25
        c["taylor_order"] = rnd.choice([None, 2, 3, 4, 5, 6]) if not c["adaptive"] else None
    elif method == "tdrk":
        c["rk_solver"] = rnd.choice(RK_METHODS)
        c["adaptive"] = c["rk_solver"] in EMBEDDED
    elif method in ("ps", "ps2", "mu_cmf"):
        c["ivp_solver"] = rnd.choice(["krylov", "krylov", "RK45", "RK23"])
        c["adaptive"] = rnd.random() < 0.15
        if method == "mu_cmf":
            c["cmf_midpoint"] = rnd.random() < 0.7
            c["cmf_trapz"] = c["cmf_midpoint"] and rnd.random() < 0.3
            c["force_ovlp"] = rnd.random() < 0.7
    else:
        c["force_ovlp"] = rnd.random() < 0.7
        c["vmf_auto_switch"] = rnd.random() < 0.7
    if rnd.random() < 0.3:
        c["ivp_rtol"] = rnd.choice([1e-4, 1e-6, 1e-7])
        c["ivp_atol"] = rnd.choice([1e-8, 1e-10])
    if c.get("adaptive"):
        g = rnd.choice([0.02, 0.1, 0.5, 2.0])
        c["guess_dt"] = [0.0, -g] if imag else [g, 0.0]
        # tight tolerances make the step-size controller REJECT trial steps (retry with a smaller step)
        c["adaptive_rtol"] = rnd.choice([5e-4, 1e-4, 1e-5, 1e-6, 1e-7])
    return c


def _pick_state_and_ham(w, rnd, kinds=("mps", "mpdm")):
    hams = w.handles("mpo", pred=lambda e: e.meta.get("hermitian"))
    rnd.shuffle(hams)
    for hh in hams:
        mid = w.h[hh].mid
        st = w.handles(kinds, mid, pred=lambda e: nonzero(e) and len(e.obj) >= 2)
        if st:
            return rnd.choice(st), hh
    return None


@prop("mpo_ham")
def p_mpo_ham(w, rnd):
    mid = rnd.randrange(len(w.models))
    return {"op": "mpo_ham", "mid": mid, "offset": rnd.choice([0.0, 0.0, round(rnd.uniform(-2, 2), 3)]), "algo": rnd.choice(["qr", "Hopcroft-Karp"]), "out": w.new_handle()}


@prop("expand")
def p_expand(w, rnd):
    hams = w.handles("mpo", pred=lambda e: e.meta.get("hermitian"))
    rnd.shuffle(hams)
    for hh in hams:
        mid = w.h[hh].mid
        st = w.handles(("mps", "mpdm"), mid, pred=lambda e: nonzero(e) and len(e.obj) >= 2 and
                       all(b < cp for b, cp in zip(e.obj.bond_dims[1:-1], exact_bond_cap(w.pd(mid, e.kind))[1:-1])))
        if st:
            return {"op": "expand", "a": rnd.choice(st), "h": hh, "m": None if rnd.random() < 0.85 else rnd.randint(2, 6), "out": w.new_handle()}
    return None


def _gen_evolve(w, rnd, imag):
    p = _pick_state_and_ham(w, rnd)
    if p is None:
        return None
    a, hh = p
    e, eh = w.h[a], w.h[hh]
    c = gen_cfg(rnd, imag, e.kind)
    tdvp = c["method"] in ("ps", "ps2", "vmf", "mu_vmf", "mu_cmf")
    if tdvp and c["method"] != "ps2" and not (e.meta.get("expanded") or rnd.random() < 0.25):
        # TDVP accuracy needs exact-rank bonds: prefer expanded states
        ex = [h for h in w.handles(("mps", "mpdm"), e.mid, pred=lambda q: q.meta.get("expanded") and nonzero(q))]
        if ex:
            a = rnd.choice(ex)
            e = w.h[a]
    hn = _sector_norm(eh.shadow, e.obj.model, np.asarray(e.obj.qntot).reshape(-1), e.kind)
    if hn < 1e-3:
        return None
    x = 10 ** rnd.uniform(math.log10(X_LO), math.log10(X_HI)) if rnd.random() < 0.85 else rnd.uniform(0.5, 1.5)
    if c.get("reject_scenario"):
        x = rnd.uniform(0.25, 0.5)
    tau = round(x / hn, 6)
    cap = exact_bond_cap(w.pd(e.mid, e.kind))
    m = max(cap) if rnd.random() < 0.8 else rnd.randint(1, max(2, max(cap)))
    s = {"op": "evolve", "a": a, "h": hh, "cfg": c, "dt": [0.0, -tau] if imag else [tau * rnd.choice([1, 1, 1, -1]), 0.0], "m": m,
         "normalize": rnd.random() < 0.8, "out": w.new_handle()}
    if c.get("adaptive") and not imag and s["dt"][0] < 0:
        s["dt"][0] = abs(s["dt"][0])
    if e.meta.get("evolved") and rnd.random() < 0.3:
        s["keep_config"] = True
    if not imag and ((c["method"] in ("tdrk4", "tdrk", "vmf", "mu_vmf") and rnd.random() < 0.35 and not c.get("adaptive"))
                     or (c["method"] == "tdrk" and c.get("adaptive") and rnd.random() < 0.5)):
        spec = w.model_specs[e.mid]
        i = rnd.randrange(len(spec["sites"]))
        sy, d, q, _h = gm.elementary(spec["sites"][i], rnd, spec["qn_size"], hermitian_only=True)
        s["td"] = {"term": {"sym": sy, "dofs": [list(z) if isinstance(z, tuple) else z for z in d], "factor": [1.0, 0.0], "qn": q},
                   "amp": round(rnd.uniform(0.2, 1.0) * hn, 4), "omega": round(rnd.uniform(0.5, 3.0) / max(tau, 1e-9), 4), "phase": round(rnd.uniform(0, 6.28), 3)}
    r = rnd.random()
    if r < 0.5:
        kind = rnd.choice(["solver", "adaptive", "split", "order", "order", "repeat"])
        s["pair"] = {"kind": kind, "other": rnd.choice(["krylov", "RK45", "RK23"]), "guess": round(tau * rnd.choice([0.3, 1.0, 3.0]), 6)}
    return s


def _is_left_canonical(obj):
    try:
        return bool(obj.check_left_canonical())
    except Exception:
        return True


@prop("evolve_ovlp")
def p_evolve_ovlp(w, rnd):
    """Scenario bias: the variational-mean-field schemes keep a state that is NOT canonical (force_ovlp with a left-pointing sweep
    direction) and work with explicit overlap matrices.  The scheduler steers a complex, full-rank state into that situation
    (direction flipped, bond gauge changed by another holder) and then evolves it."""
    hams = w.handles("mpo", pred=lambda e: e.meta.get("hermitian"))
    rnd.shuffle(hams)
    for hh in hams:
        mid = w.h[hh].mid
        st = w.handles("mps", mid, pred=lambda e: nonzero(e) and len(e.obj) >= 2 and e.obj.qn is not None and full_rank_in_sector(e.obj, "mps")
                       and max(e.obj.bond_dims) > 1)
        if not st:
            continue
        ready = [x for x in st if w.h[x].obj.is_complex and not w.h[x].obj.to_right and not _is_left_canonical(w.h[x].obj)]
        if ready:
            a = rnd.choice(ready)
            e, eh = w.h[a], w.h[hh]
            hn = _sector_norm(eh.shadow, e.obj.model, np.asarray(e.obj.qntot).reshape(-1), e.kind)
            if hn < 1e-3:
                continue
            x = 10 ** rnd.uniform(math.log10(X_LO), math.log10(X_HI))
            imag = rnd.random() < 0.3
            tau = round(x / hn, 6)
            c = {"method": rnd.choice(["vmf", "mu_vmf"]), "force_ovlp": True, "vmf_auto_switch": rnd.random() < 0.5}
            return {"op": "evolve", "a": a, "h": hh, "cfg": c, "dt": [0.0, -tau] if imag else [tau * rnd.choice([1, -1]), 0.0],
                    "m": max(exact_bond_cap(w.pd(e.mid, e.kind))), "normalize": rnd.random() < 0.7, "out": w.new_handle()}
        a = rnd.choice(st)
        obj = w.h[a].obj
        if not obj.is_complex:
            return {"op": "unary", "a": a, "which": "to_complex", "out": w.new_handle()}
        if obj.to_right:
            return {"op": "ensure", "a": a, "side": "R"}
        return {"op": "regauge", "a": a, "bond": rnd.randrange(8), "gseed": rnd.randrange(2 ** 31)}
    return None


@prop("evolve")
def p_evolve(w, rnd):
    return _gen_evolve(w, rnd, imag=False)


@prop("evolve_imag")
def p_evolve_imag(w, rnd):
    return _gen_evolve(w, rnd, imag=True)
