"""Process environment shared by driver and workers.

Nothing in here imports renormalizer; `setup_worker()` prepares sys.path so that the real library is
imported from /repo's *working tree* (never installed, never byte-compiled into /repo).
"""
import hashlib
import os
import sys

VERIF = os.path.dirname(os.path.dirname(os.path.abspath(__file__)))
REPO = os.environ.get("VERIF_REPO", "/repo")
STUBS = os.path.join(VERIF, "stubs")
PYTHON = "/venv/bin/python"

# hash-seed classes: PYTHONHASHSEED is a scheduler of numerical paths (opt_einsum path search over string labels)
HASH_CLASSES = ("0", "4242")

DEFAULT_SEED = 20260925


def base_seed():
    try:
        return int(os.environ.get("VERIF_SEED", DEFAULT_SEED))
    except ValueError:
        return DEFAULT_SEED


def run_seed(base, index, salt=""):
    h = hashlib.sha256(f"{base}:{index}:{salt}".encode()).digest()
    return int.from_bytes(h[:8], "big") >> 1


def hash_class_of(index):
    return index % len(HASH_CLASSES)


def worker_env(hash_class):
    env = dict(os.environ)
    env.update(
        OMP_NUM_THREADS="1", OPENBLAS_NUM_THREADS="1", MKL_NUM_THREADS="1", NUMEXPR_NUM_THREADS="1",
        RENO_LOG_LEVEL="50", PYTHONDONTWRITEBYTECODE="1", PYTHONHASHSEED=HASH_CLASSES[hash_class],
        RENORMALIZER_VERIF="1",
    )
    env.pop("RENO_GPU", None)
    return env


def setup_worker():
    sys.dont_write_bytecode = True
    for p in (STUBS, REPO):
        if p in sys.path:
            sys.path.remove(p)
    sys.path.insert(0, STUBS)
    sys.path.insert(0, REPO)
    if VERIF not in sys.path:
        sys.path.insert(0, VERIF)


def scratch_root():
    for cand in ("/dev/shm", os.environ.get("TMPDIR", ""), "/var/tmp", "/tmp"):
        if cand and os.path.isdir(cand) and os.access(cand, os.W_OK):
            return cand
    return "/tmp"
