"""Dense reference model ("shadow") builders.  Nothing here goes through the tensor-network code paths:
operators are Kronecker products of BasisSet.op_mat matrices, states are contracted site tensors."""
import itertools

import numpy as np
import scipy.linalg

from renormalizer.model import Op


def pdims(model):
    return [b.nbas for b in model.basis]


def dim(model):
    return int(np.prod(pdims(model)))


def kron_all(mats):
    out = np.ones((1, 1))
    for m in mats:
        out = np.kron(out, m)
    return out


def term_site_mats(model, term):
    """Per-site matrices of one Op term (identity where the term does not act), factor NOT included."""
    per_site = {}
    for sym, dof, qn in zip(term.split_symbol, term.dofs, term.qn_list):
        s = model.dof_to_siteidx[dof]
        per_site.setdefault(s, []).append((sym, dof, qn))
    mats = []
    for i, b in enumerate(model.basis):
        if i not in per_site:
            mats.append(np.eye(b.nbas))
            continue
        syms = " ".join(x[0] for x in per_site[i])
        dofs = [x[1] for x in per_site[i]]
        qns = [x[2] for x in per_site[i]]
        with np.errstate(all="ignore"):
            mats.append(np.asarray(b.op_mat(Op(syms, dofs, 1.0, qns))))
    return mats


def dense_op(model, terms, offset=0.0):
    """sum_k c_k (x)_sites local matrices  -  offset * identity"""
    d = dim(model)
    out = np.zeros((d, d), dtype=complex)
    with np.errstate(all="ignore"):
        for t in terms:
            out += t.factor * kron_all(term_site_mats(model, t))
        if offset:
            out -= offset * np.eye(d)
    return out


def site_charges(model):
    """(dim, qn_size) integer array: total charge of every product basis state."""
    qs = [np.asarray(b.sigmaqn).reshape(b.nbas, -1) for b in model.basis]
    tot = np.zeros((1, qs[0].shape[1]), dtype=int)
    for q in qs:
        tot = (tot[:, None, :] + q[None, :, :]).reshape(-1, q.shape[1])
    return tot


def sector_mask(model, qntot):
    q = site_charges(model)
    return np.all(q == np.asarray(qntot).reshape(1, -1), axis=1)


def dense_mps_tensors(mp):
    """Contract the site tensors of an Mps (3-index) -> vector; no prefactor."""
    res = np.ones((1, 1), dtype=complex)
    for i in range(len(mp)):
        a = np.asarray(mp[i].array)
        res = np.tensordot(res, a, axes=([-1], [0])).reshape(-1, a.shape[-1])
    return res[:, 0].copy() if res.shape[1] == 1 else res.copy()


def dense_mpo_tensors(mp):
    """Contract 4-index site tensors (Mpo / MpDm) -> matrix (up indices = rows); no prefactor."""
    res = np.ones((1, 1, 1), dtype=complex)  # (rows, cols, bond)
    for i in range(len(mp)):
        a = np.asarray(mp[i].array)  # (l, u, d, r)
        res = np.einsum("xyl,ludr->xuydr", res, a).reshape(res.shape[0] * a.shape[1], res.shape[1] * a.shape[2], a.shape[3])
    return res[:, :, 0].copy()


def dense_of(obj):
    """Represented value of a chain object: tensors times scalar prefactor."""
    if obj.is_mps:
        return dense_mps_tensors(obj) * obj.coeff
    if obj.is_mpdm:
        return dense_mpo_tensors(obj) * obj.coeff
    return dense_mpo_tensors(obj)


def schmidt_spectra(x, dims):
    """Singular values of the dense state/operator at every internal cut.  dims = per-site total physical dims."""
    x = np.asarray(x)
    out = []
    n = len(dims)
    flat = x.reshape(-1)
    for k in range(1, n):
        dl = int(np.prod(dims[:k]))
        with np.errstate(all="ignore"):
            out.append(scipy.linalg.svdvals(flat.reshape(dl, -1)))
    return out


def op_as_vector(mat, pd):
    """Reorder a dense operator (rows=(u1..un), cols=(d1..dn)) into the chain layout (u1,d1,u2,d2,...)."""
    n = len(pd)
    t = np.asarray(mat).reshape(list(pd) + list(pd))
    perm = list(itertools.chain.from_iterable((i, n + i) for i in range(n)))
    return t.transpose(perm).reshape(-1)


def permute_sites_vec(vec, pd, perm):
    """vec in site order 0..n-1 -> vector in order perm (new site j = old site perm[j])."""
    t = np.asarray(vec).reshape(pd)
    return t.transpose(perm).reshape(-1)


def permute_sites_op(mat, pd, perm):
    n = len(pd)
    t = np.asarray(mat).reshape(list(pd) + list(pd))
    t = t.transpose(list(perm) + [n + p for p in perm])
    d = int(np.prod(pd))
    return t.reshape(d, d)


def partial_trace_keep(rho_vec, pd, keep):
    """rho = |v><v|, trace out every site not in keep; returns matrix over kept sites (in given order)."""
    n = len(pd)
    t = np.asarray(rho_vec).reshape(pd)
    other = [i for i in range(n) if i not in keep]
    t = t.transpose(list(keep) + other).reshape(int(np.prod([pd[i] for i in keep])), -1)
    return t @ t.conj().T


def vn_entropy_from_probs(p):
    p = np.asarray(p, dtype=float)
    p = p[p > 1e-14]
    with np.errstate(all="ignore"):
        return float(-(p * np.log(p)).sum())
