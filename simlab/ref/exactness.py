"""When is the projector-splitting integrator exact?

With every bond at its sector cap the TDVP tangent space is the whole symmetry sector, so the continuous TDVP flow (VMF) is
exact.  The SPLITTING integrator additionally needs a centre node c such that every bond carries the COMPLETE (sector-resolved)
space of the side that does not contain c: then each forward one-site step and the following backward bond step use the same
projector and cancel, and the step at c is the full propagator.  Otherwise (e.g. a leaf whose charge blocks are complete on
different sides) only the scheme's order O(x^3) holds.
"""
import numpy as np


def counts(rows_list, qs):
    """number of product states per total charge for a set of sites; rows_list = list of (n_i, qs) integer arrays"""
    cur = {tuple([0] * qs): 1}
    for rows in rows_list:
        nxt = {}
        for key, c in cur.items():
            for row in np.asarray(rows).reshape(-1, qs).tolist():
                k2 = tuple(int(a + b) for a, b in zip(key, row))
                nxt[k2] = nxt.get(k2, 0) + c
        cur = nxt
    return cur


def _multiset(labels, qs):
    have = {}
    for row in np.asarray(labels).reshape(-1, qs).tolist():
        t = tuple(int(v) for v in row)
        have[t] = have.get(t, 0) + 1
    return have


def classify_bond(labels_a, full_a, full_b, qntot):
    """labels_a: bond labels as charges of side A.  -> (at_cap, complete_a, complete_b)"""
    qs = len(qntot)
    have = _multiset(labels_a, qs)
    at_cap = complete_a = complete_b = True
    keys = set(full_a) | set(have)
    for qa in keys:
        qb = tuple(int(t - a) for t, a in zip(qntot, qa))
        na, nb = full_a.get(qa, 0), full_b.get(qb, 0)
        h = have.get(qa, 0)
        if min(na, nb) == 0:
            if h:
                at_cap = complete_a = complete_b = False     # states that cannot be part of the sector
            continue
        if h != min(na, nb):
            at_cap = False
        if h != na:
            complete_a = False
        if h != nb:
            complete_b = False
    return at_cap, complete_a, complete_b


def splitting_exact(nnodes, bonds, qntot):
    """bonds: list of (set_of_nodes_on_side_A, labels_as_charge_of_A, site_rows_A, site_rows_B).
    -> (tangent_full, centre_exists)"""
    qs = len(qntot)
    allowed = set(range(nnodes))
    tangent_full = True
    for side_a, labels_a, rows_a, rows_b in bonds:
        full_a, full_b = counts(rows_a, qs), counts(rows_b, qs)
        at_cap, ca, cb = classify_bond(labels_a, full_a, full_b, tuple(int(v) for v in qntot))
        tangent_full = tangent_full and at_cap
        ok = set()
        if ca:
            ok |= set(range(nnodes)) - set(side_a)     # complete on side A: the centre lies in B
        if cb:
            ok |= set(side_a)
        allowed &= ok
    return tangent_full, tangent_full and bool(allowed)
