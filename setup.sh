#!/bin/bash
# Offline setup: nothing to build or install (everything needed is in /venv); verify imports and seams.
cd "$(dirname "$0")" || exit 2
export OMP_NUM_THREADS=1 OPENBLAS_NUM_THREADS=1 RENO_LOG_LEVEL=50 PYTHONDONTWRITEBYTECODE=1 PYTHONHASHSEED=0
mkdir -p evidence replays
exec /venv/bin/python -B -m simlab.setupcheck
