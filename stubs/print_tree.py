# Stub for the third-party `print_tree` package, which is not installed in this sandbox.
# renormalizer.tn imports it only for pretty printing (print_as_tree).  Reported as "stub" in evidence.
class print_tree:
    def __init__(self, root=None, *args, **kwargs):
        self.rows = []
